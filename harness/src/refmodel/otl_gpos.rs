//! Reference semantics for GPOS lookups (types 1-9) and the legacy `kern` table on the model of
//! `fontgen::otl_gpos`, written from the OpenType specification (chapter 2 "lookup flags",
//! GPOS lookup types, kern) — no allsorts code. Also the pen-position model used to turn
//! adjustments into absolute glyph origins.
//!
//! Besides the specification semantics the interpreter has *deviation switches* (`dev::*`):
//! each reproduces one documented / confirmed departure of allsorts from the specification.
//! The property check uses them only for attribution: a case is attributed to a finding when
//! the spec result and the deviating result differ *and* allsorts equals the deviating result
//! exactly (DESIGN §3.6 step 4).

use crate::fontgen::otl_gpos::*;
use std::collections::BTreeSet;

pub mod dev {
    /// PairPos does not skip the second glyph when valueFormat2 != 0 (acknowledged: AOTS
    /// gpos2_1_next_glyph_t1 ignored "pairpos next glyph layout is not yet implemented")
    pub const PAIR_NO_SKIP: u32 = 1 << 0;
    /// after a (chain) context match the cursor is not moved past the matched input
    /// (acknowledged: AOTS "next glyph layout is not yet implemented")
    pub const CTX_NO_SKIP: u32 = 1 << 1;
    /// nested lookups locate their target by counting glyphs with the *nested* lookup's flags
    /// from the match start instead of using the parent's matched input positions
    /// (acknowledged: AOTS *_lookupflag_t1_gpos ignored)
    pub const NESTED_FLAGS: u32 = 1 << 2;
    /// a value record with yAdvance != 0 is dropped entirely
    pub const YADV_DROP: u32 = 1 << 3;
    /// mark attachment lookups (types 4, 5, 6) ignore the lookup flags
    pub const MARK_FLAGS: u32 = 1 << 4;
    /// mark-to-mark tries every earlier mark of the same mark run as mark2, the nearest match
    /// winning, instead of only the immediately preceding (unskipped) mark
    pub const MKMK_ANY: u32 = 1 << 5;
    /// cursive lookups always skip exactly the marks, whatever the lookup flags say
    pub const CURS_FLAGS: u32 = 1 << 6;
    /// legacy kern *assigns* the pair value to the left glyph's advance adjustment, discarding
    /// what earlier GPOS features accumulated there
    pub const KERN_ASSIGN: u32 = 1 << 7;
    /// kern format 2: left class values are added to the start of the kerning array instead of
    /// the start of the subtable, and the table is rejected unless rowWidth x nRightGlyphs bytes
    /// follow the array start
    pub const KERN2_ARRAY: u32 = 1 << 8;
    /// a mark filtering set also skips every glyph that is not a mark
    pub const MARKSET_NONMARK: u32 = 1 << 9;

    /// glyph_positions(): a mark attached to a base that carries a Distance placement gets the
    /// base's placement added twice
    pub const POS_BASE_TWICE: u32 = 1 << 10;

    /// SinglePos: a subtable that covers the glyph but has valueFormat 0 does not end the
    /// subtable search
    pub const SINGLE_EMPTY: u32 = 1 << 11;

    /// glyph_positions(), LTR: the advance of a glyph with a cursive exit link becomes the exit
    /// anchor's x; the entry anchor's x of the next glyph is ignored
    pub const CURS_X_ENTRY: u32 = 1 << 12;
    /// glyph_positions(): with the RIGHT_TO_LEFT lookup flag clear the cross-stream (y)
    /// alignment of cursive links is wrong (both glyphs are shifted by entry.y - exit.y)
    pub const CURS_Y_CLEAR: u32 = 1 << 13;

    /// value records: the variation deltas of xPlacement / yPlacement (VariationIndex tables
    /// behind xPlaDevice / yPlaDevice) are dropped when both static placements are zero
    pub const VAR_PLACE_STATIC0: u32 = 1 << 14;
    /// anchor format 3: the VariationIndex tables behind xDeviceOffset / yDeviceOffset are not
    /// read; anchors keep their default coordinates at every location of the design space
    pub const ANCHOR_VAR: u32 = 1 << 15;

    /// not a deviation: the second reading of "apply a cursive lookup at the recorded position"
    /// (the glyph there is the entry side of the link). Never part of `ALL`.
    pub const READ_CURS_ENTRY: u32 = 1 << 30;

    pub const ALL: [u32; 16] = [
        PAIR_NO_SKIP, CTX_NO_SKIP, NESTED_FLAGS, YADV_DROP, MARK_FLAGS, MKMK_ANY, CURS_FLAGS, KERN_ASSIGN, KERN2_ARRAY,
        MARKSET_NONMARK, POS_BASE_TWICE, SINGLE_EMPTY, CURS_X_ENTRY, CURS_Y_CLEAR, VAR_PLACE_STATIC0, ANCHOR_VAR,
    ];

    pub fn name(bit: u32) -> &'static str {
        match bit {
            PAIR_NO_SKIP => "pairpos-second-glyph-not-skipped",
            CTX_NO_SKIP => "context-cursor-not-advanced",
            NESTED_FLAGS => "nested-lookup-uses-own-flags",
            YADV_DROP => "value-record-dropped-when-yadvance",
            MARK_FLAGS => "mark-attachment-ignores-lookup-flags",
            MKMK_ANY => "mkmk-attaches-to-any-earlier-mark",
            CURS_FLAGS => "cursive-ignores-lookup-flags",
            KERN_ASSIGN => "kern-table-overwrites-gpos-advance",
            KERN2_ARRAY => "kern-format2-array-relative",
            MARKSET_NONMARK => "mark-filtering-set-skips-non-marks",
            POS_BASE_TWICE => "positions-base-placement-added-twice",
            SINGLE_EMPTY => "singlepos-empty-format-falls-through",
            CURS_X_ENTRY => "cursive-entry-anchor-x-ignored",
            CURS_Y_CLEAR => "cursive-y-wrong-when-rtl-flag-clear",
            VAR_PLACE_STATIC0 => "placement-variation-dropped-when-static-zero",
            ANCHOR_VAR => "anchor-variation-index-ignored",
            _ => "?",
        }
    }
}

#[derive(Clone, Debug, PartialEq, Eq)]
pub struct GlyphIn {
    pub gid: Gid,
    /// ligature component the glyph (a mark) belongs to, 0-based
    pub comp: u16,
    /// the glyph is itself the product of a ligature substitution
    pub lig: bool,
}

#[derive(Clone, Debug, PartialEq, Eq)]
pub enum Attach {
    None,
    /// mark attached to glyph `base`; `post` = placements applied after the attachment
    Mark { base: usize, ba: (i16, i16), ma: (i16, i16), post: (i32, i32) },
    /// this glyph's exit anchor joins the entry anchor of glyph `next`
    Cursive { next: usize, rtl: bool, exit: (i16, i16), entry: (i16, i16) },
}

#[derive(Clone, Debug, PartialEq, Eq)]
pub struct GlyphOut {
    /// sum of xAdvance adjustments (and kern values)
    pub adv: i32,
    /// sum of placements (while not attached as a mark)
    pub dx: i32,
    pub dy: i32,
    pub attach: Attach,
}

impl GlyphOut {
    fn new() -> GlyphOut {
        GlyphOut { adv: 0, dx: 0, dy: 0, attach: Attach::None }
    }
    pub fn is_trivial(&self) -> bool {
        self.adv == 0 && self.dx == 0 && self.dy == 0 && self.attach == Attach::None
    }
}

/// One application step, in application order.
#[derive(Clone, Debug, PartialEq, Eq)]
pub enum Step {
    Lookup(u16),
    KernTable,
}

#[derive(Clone, Debug, Default)]
pub struct Notes {
    /// classification labels (fired lookup types, flag kinds that skipped, ...)
    pub classes: BTreeSet<String>,
    /// situations in which the specification leaves the result open; the case is excluded
    pub ambiguous: BTreeSet<&'static str>,
    /// some accumulated value left the i16 range (allsorts stores i16)
    pub overflow: bool,
    /// the kern table is unreadable under the active deviation set
    pub kern_rejected: bool,
}

#[derive(Clone, Debug)]
pub struct RunResult {
    pub out: Vec<GlyphOut>,
    pub notes: Notes,
}

pub struct KernBytes<'a> {
    pub bytes: &'a [u8],
    pub layouts: &'a [Option<Kern2Layout>],
}

pub struct Interp<'a> {
    pub gdef: Option<&'a GdefModel>,
    pub gpos: Option<&'a GposModel>,
    pub kern: Option<(&'a KernModel, KernBytes<'a>)>,
    pub dev: u32,
    /// normalised design-space location (raw F2Dot14 per axis) the run is shaped at; None = no
    /// tuple given (default instance: static values only)
    loc: Option<&'a [i16]>,
    glyphs: &'a [GlyphIn],
    out: Vec<GlyphOut>,
    /// glyph is the entry side of a cursive link
    cursive_target: Vec<bool>,
    notes: Notes,
}

/// Is glyph `g` skipped under lookup flags `f`? (OpenType chapter 2, lookupFlag bits.)
/// Returns the reason, for classification. `devs`: active deviation switches.
pub fn skip_reason(gdef: Option<&GdefModel>, f: &Flags, g: Gid, devs: u32) -> Option<&'static str> {
    let class = gdef.map(|d| d.class(g)).unwrap_or(0);
    if f.ignore_base && class == 1 {
        return Some("skip:base");
    }
    if f.ignore_lig && class == 2 {
        return Some("skip:ligature");
    }
    if class == 3 {
        if f.ignore_marks {
            return Some("skip:marks");
        }
        if f.mark_attach_type != 0 && gdef.map(|d| d.attach_class(g)).unwrap_or(0) != f.mark_attach_type as u16 {
            return Some("skip:mark-attach-type");
        }
    }
    if let Some(set) = f.mark_filter_set {
        // (a lookup never combines a filtering set with ignoreMarks / markAttachmentType here)
        if !f.ignore_marks && f.mark_attach_type == 0 {
            let in_set = gdef.map(|d| d.in_mark_set(set, g)).unwrap_or(false);
            if class == 3 && !in_set {
                return Some("skip:mark-filter-set");
            }
            if class != 3 && devs & dev::MARKSET_NONMARK != 0 {
                return Some("skip:nonmark-by-filter-set");
            }
        }
    }
    None
}

impl<'a> Interp<'a> {
    pub fn new(
        gdef: Option<&'a GdefModel>,
        gpos: Option<&'a GposModel>,
        kern: Option<(&'a KernModel, KernBytes<'a>)>,
        dev: u32,
        glyphs: &'a [GlyphIn],
    ) -> Interp<'a> {
        Interp {
            gdef,
            gpos,
            kern,
            dev,
            loc: None,
            glyphs,
            out: glyphs.iter().map(|_| GlyphOut::new()).collect(),
            cursive_target: vec![false; glyphs.len()],
            notes: Notes::default(),
        }
    }

    /// shape at a location of the variation space (VariationIndex tables then contribute
    /// round(sum of region scalar x delta) from the GDEF ItemVariationStore)
    pub fn at_location(mut self, loc: Option<&'a [i16]>) -> Interp<'a> {
        self.loc = loc;
        self
    }

    /// Delta a Device / VariationIndex table contributes. Hinting Device tables (formats 1-3)
    /// apply to a ppem size, which a shaping call in font units does not have: no effect.
    /// VariationIndex: the interpolated delta of the referenced delta set, rounded to an
    /// integer ("Algorithm for interpolation of instance values"); without a location or
    /// without a store there is nothing to add. A value too close to a rounding tie is not
    /// asserted (the specification rounds half up, f32 arithmetic may land on either side).
    fn var_delta(&mut self, d: &DevM) -> i32 {
        match (d, self.loc, self.gdef.and_then(|g| g.ivs.as_ref())) {
            (DevM::Var { outer, inner }, Some(loc), Some(ivs)) => match ivs.adjustment(*outer, *inner, loc) {
                Some(x) => {
                    let frac = x - x.floor();
                    if (frac - 0.5).abs() < 0.02 {
                        self.notes.ambiguous.insert("variation:rounding-tie");
                    }
                    let r = (x + 0.5).floor() as i32;
                    if r != 0 {
                        self.note("variation:delta-nonzero");
                    } else {
                        self.note("variation:delta-zero");
                    }
                    r
                }
                None => {
                    self.notes.ambiguous.insert("variation:index-out-of-range");
                    0
                }
            },
            (DevM::Var { .. }, None, _) => {
                self.note("variation:no-tuple");
                0
            }
            (DevM::Hint { .. }, _, _) => {
                self.note("device:hinting-table");
                0
            }
            _ => 0,
        }
    }

    /// anchor coordinates at the current location
    fn anchor_pt(&mut self, a: &AnchorM) -> (i16, i16) {
        if a.fmt != 3 || self.on(dev::ANCHOR_VAR) {
            if a.fmt == 3 && a.dev.iter().any(|d| matches!(d, DevM::Var { .. })) {
                self.note("anchor:variation-index");
            }
            return (a.x, a.y);
        }
        let dx = self.var_delta(&a.dev[0]);
        let dy = self.var_delta(&a.dev[1]);
        if dx != 0 || dy != 0 {
            self.note("anchor:varied");
        }
        let (x, y) = (a.x as i32 + dx, a.y as i32 + dy);
        let in16 = |v: i32| v >= i16::MIN as i32 && v <= i16::MAX as i32;
        if !in16(x) || !in16(y) {
            self.notes.overflow = true;
        }
        (x.clamp(i16::MIN as i32, i16::MAX as i32) as i16, y.clamp(i16::MIN as i32, i16::MAX as i32) as i16)
    }

    pub fn run(mut self, steps: &[Step]) -> RunResult {
        for s in steps {
            match s {
                Step::Lookup(i) => self.apply_lookup(*i as usize),
                Step::KernTable => self.apply_kern(),
            }
        }
        for o in &self.out {
            let in16 = |v: i32| v >= i16::MIN as i32 && v <= i16::MAX as i32;
            if !in16(o.adv) || !in16(o.dx) || !in16(o.dy) {
                self.notes.overflow = true;
            }
            if let Attach::Mark { ba, post, .. } = &o.attach {
                if !in16(ba.0 as i32 + post.0) || !in16(ba.1 as i32 + post.1) || !in16(post.0) || !in16(post.1) {
                    self.notes.overflow = true;
                }
            }
        }
        RunResult { out: self.out, notes: self.notes }
    }

    fn on(&self, bit: u32) -> bool {
        self.dev & bit != 0
    }

    fn note(&mut self, s: &str) {
        if !self.notes.classes.contains(s) {
            self.notes.classes.insert(s.to_string());
        }
    }

    fn gid(&self, i: usize) -> Gid {
        self.glyphs[i].gid
    }

    fn class(&self, g: Gid) -> u16 {
        self.gdef.map(|d| d.class(g)).unwrap_or(0)
    }

    fn skip_reason(&self, f: &Flags, g: Gid) -> Option<&'static str> {
        skip_reason(self.gdef, f, g, self.dev)
    }

    fn skipped(&self, f: &Flags, i: usize) -> bool {
        self.skip_reason(f, self.gid(i)).is_some()
    }

    fn next(&mut self, f: &Flags, mut i: usize) -> Option<usize> {
        while i + 1 < self.glyphs.len() {
            i += 1;
            match self.skip_reason(f, self.gid(i)) {
                None => return Some(i),
                Some(r) => self.note(r),
            }
        }
        None
    }

    fn prev(&mut self, f: &Flags, mut i: usize) -> Option<usize> {
        while i > 0 {
            i -= 1;
            match self.skip_reason(f, self.gid(i)) {
                None => return Some(i),
                Some(r) => self.note(r),
            }
        }
        None
    }

    // -----------------------------------------------------------------------------------------

    fn apply_value(&mut self, i: usize, v: Value) {
        if v.ya != 0 {
            // yAdvance is "only used for vertical layout": ignored in a horizontal run
            self.note("value:yadvance-nonzero");
            if self.on(dev::YADV_DROP) {
                return;
            }
        }
        let in16 = |v: i32| v >= i16::MIN as i32 && v <= i16::MAX as i32;
        // adjusted value = static value + variation delta
        let static_placement_zero = v.xp == 0 && v.yp == 0;
        let (mut dxp, mut dyp) = (self.var_delta(&v.dev[0]), self.var_delta(&v.dev[1]));
        let dxa = self.var_delta(&v.dev[2]);
        let _ = self.var_delta(&v.dev[3]); // yAdvance: no effect in a horizontal run
        if static_placement_zero && (dxp != 0 || dyp != 0) {
            self.note("variation:placement-delta-on-zero-static");
            if self.on(dev::VAR_PLACE_STATIC0) {
                dxp = 0;
                dyp = 0;
            }
        }
        let (xp, yp, xa) = (v.xp as i32 + dxp, v.yp as i32 + dyp, v.xa as i32 + dxa);
        if !in16(xp) || !in16(yp) || !in16(xa) {
            self.notes.overflow = true;
        }
        // (a record whose static placement is non-zero but cancelled by its delta still counts
        // as a placement operation on the glyph)
        let touch = xp != 0 || yp != 0 || !static_placement_zero;
        if self.cursive_target[i] && touch {
            self.notes.ambiguous.insert("cursive+placement");
        }
        let o = &mut self.out[i];
        o.adv += xa;
        if !in16(o.adv) {
            self.notes.overflow = true;
        }
        if touch {
            match &mut o.attach {
                Attach::None => {
                    o.dx += xp;
                    o.dy += yp;
                }
                Attach::Mark { post, ba, .. } => {
                    post.0 += xp;
                    post.1 += yp;
                    if !in16(ba.0 as i32 + post.0) || !in16(ba.1 as i32 + post.1) {
                        self.notes.overflow = true;
                    }
                    self.notes.classes.insert("placement-after-mark-attach".into());
                }
                Attach::Cursive { .. } => {
                    o.dx += xp;
                    o.dy += yp;
                    self.notes.ambiguous.insert("cursive+placement");
                }
            }
        }
    }

    fn attach_mark(&mut self, j: usize, base: usize, ba: &AnchorM, ma: &AnchorM) {
        let (ba, ma) = (self.anchor_pt(ba), self.anchor_pt(ma));
        let o = &mut self.out[j];
        if o.dx != 0 || o.dy != 0 {
            self.notes.classes.insert("placement-before-mark-attach".into());
        }
        if let Attach::Cursive { .. } = o.attach {
            self.notes.ambiguous.insert("cursive+mark-attach");
        }
        if self.cursive_target[j] {
            self.notes.ambiguous.insert("cursive+mark-attach");
        }
        // the mark sits at base anchor - mark anchor: earlier placements no longer apply
        o.dx = 0;
        o.dy = 0;
        o.attach = Attach::Mark { base, ba, ma, post: (0, 0) };
    }

    fn lookup(&self, li: usize) -> Option<&'a Lookup> {
        self.gpos.and_then(|g| g.lookups.get(li))
    }

    pub fn apply_lookup(&mut self, li: usize) {
        let l = match self.lookup(li) {
            Some(l) => l,
            None => return,
        };
        let n = self.glyphs.len();
        let f = l.flags;
        match l.ltype {
            1 => {
                for i in 0..n {
                    if !self.skipped(&f, i) {
                        self.single_at(l, i);
                    } else if let Some(r) = self.skip_reason(&f, self.gid(i)) {
                        self.note(r);
                    }
                }
            }
            2 => {
                let mut j = 0;
                while j < n {
                    if self.skipped(&f, j) {
                        j += 1;
                        continue;
                    }
                    let k = match self.next(&f, j) {
                        Some(k) => k,
                        None => break,
                    };
                    match self.pair_at(l, j, k) {
                        Some(true) if !self.on(dev::PAIR_NO_SKIP) => {
                            self.note("pair:second-glyph-consumed");
                            j = k + 1;
                        }
                        _ => j = k,
                    }
                }
            }
            3 => self.cursive(l),
            4 | 5 => self.mark_base_or_lig(l),
            6 => self.mark_mark(l),
            7 | 8 => {
                let mut j = 0;
                while j < n {
                    if self.skipped(&f, j) {
                        j += 1;
                        continue;
                    }
                    match self.context_match(l, j) {
                        Some((positions, records)) => {
                            self.note(&format!("fired:{}", if l.ltype == 7 { "7" } else { "8" }));
                            for (seq, nested) in records {
                                self.apply_nested(j, &positions, seq as usize, nested as usize);
                            }
                            let last = *positions.last().unwrap();
                            if self.on(dev::CTX_NO_SKIP) {
                                j += 1;
                            } else {
                                if last > j {
                                    self.note("context:cursor-past-input");
                                }
                                j = last + 1;
                            }
                        }
                        None => j += 1,
                    }
                }
            }
            _ => {}
        }
    }

    /// first subtable covering glyph i applies its value record
    fn single_at(&mut self, l: &Lookup, i: usize) -> bool {
        let g = self.gid(i);
        for (si, st) in l.subtables.iter().enumerate() {
            match st {
                Subtable::Single1 { cov, fmt, value } => {
                    if cov.index(g).is_some() {
                        if *fmt == 0 {
                            self.note("single:empty-format-covers");
                            if self.on(dev::SINGLE_EMPTY) {
                                continue;
                            }
                        }
                        self.note("fired:1.1");
                        self.note(&format!("singlevf:{:x}", fmt & 15));
                        if si > 0 {
                            self.note("subtable>0");
                        }
                        self.apply_value(i, value.masked(*fmt));
                        return true;
                    }
                }
                Subtable::Single2 { cov, fmt, values } => {
                    if let Some(ci) = cov.index(g) {
                        if *fmt == 0 {
                            self.note("single:empty-format-covers");
                            if self.on(dev::SINGLE_EMPTY) {
                                continue;
                            }
                        }
                        self.note("fired:1.2");
                        self.note(&format!("singlevf:{:x}", fmt & 15));
                        if si > 0 {
                            self.note("subtable>0");
                        }
                        self.apply_value(i, values[ci].masked(*fmt));
                        return true;
                    }
                }
                _ => {}
            }
        }
        false
    }

    /// Pair adjustment for first glyph i and second glyph k. Returns None if no subtable
    /// matched, else Some(valueFormat2 != 0).
    fn pair_at(&mut self, l: &Lookup, i: usize, k: usize) -> Option<bool> {
        let (g1, g2) = (self.gid(i), self.gid(k));
        for (si, st) in l.subtables.iter().enumerate() {
            match st {
                Subtable::Pair1 { cov, fmt1, fmt2, sets } => {
                    if let Some(ci) = cov.index(g1) {
                        if let Some((_, v1, v2)) = sets[ci].iter().find(|r| r.0 == g2) {
                            self.note("fired:2.1");
                            self.note(&format!("pairvf:{:x}{:x}", fmt1 & 15, fmt2 & 15));
                            if si > 0 {
                                self.note("subtable>0");
                            }
                            self.apply_value(i, v1.masked(*fmt1));
                            self.apply_value(k, v2.masked(*fmt2));
                            return Some(*fmt2 != 0);
                        }
                    }
                }
                Subtable::Pair2 { cov, fmt1, fmt2, cd1, cd2, matrix } => {
                    if cov.index(g1).is_some() {
                        let c1 = cd1.class(g1) as usize;
                        let c2 = cd2.class(g2) as usize;
                        // class counts cover every class by construction
                        let (v1, v2) = matrix[c1][c2];
                        self.note("fired:2.2");
                        self.note(&format!("pairvf:{:x}{:x}", fmt1 & 15, fmt2 & 15));
                        if v1.masked(*fmt1) != Value::default() || v2.masked(*fmt2) != Value::default() {
                            self.note("pair2:cell-nonzero");
                            if c1 == 0 {
                                self.note("pair2:class1=0");
                            }
                            if c2 == 0 {
                                self.note("pair2:class2=0");
                            }
                        }
                        if si > 0 {
                            self.note("subtable>0");
                        }
                        self.apply_value(i, v1.masked(*fmt1));
                        self.apply_value(k, v2.masked(*fmt2));
                        return Some(*fmt2 != 0);
                    }
                }
                _ => {}
            }
        }
        None
    }

    fn cursive(&mut self, l: &Lookup) {
        let f = if self.on(dev::CURS_FLAGS) {
            Flags { ignore_marks: true, rtl: l.flags.rtl, ..Flags::default() }
        } else {
            l.flags
        };
        let n = self.glyphs.len();
        for k in 0..n {
            if self.skipped(&f, k) {
                continue;
            }
            let i = match self.prev(&f, k) {
                Some(i) => i,
                None => continue,
            };
            self.cursive_link(l, i, k);
        }
    }

    /// Cursive attachment of glyph k (entry anchor) to glyph i (exit anchor): the first subtable
    /// that covers both and has the two anchors links them. Returns whether a link was made.
    fn cursive_link(&mut self, l: &Lookup, i: usize, k: usize) -> bool {
        let (g1, g2) = (self.gid(i), self.gid(k));
        for st in &l.subtables {
            if let Subtable::Cursive { cov, recs } = st {
                if let (Some(c1), Some(c2)) = (cov.index(g1), cov.index(g2)) {
                    if let (Some(exit), Some(entry)) = (&recs[c1].1, &recs[c2].0) {
                        self.note("fired:3");
                        let (exit, entry) = (self.anchor_pt(exit), self.anchor_pt(entry));
                        let o = &mut self.out[i];
                        if o.dx != 0 || o.dy != 0 {
                            self.notes.ambiguous.insert("cursive+placement");
                        }
                        if let Attach::Mark { .. } = o.attach {
                            self.notes.ambiguous.insert("cursive+mark-attach");
                        }
                        // a second cursive lookup (or subtable order) re-linking a glyph that
                        // already takes part in a link in the same role: which link survives is
                        // not specified (one glyph cannot meet two exit anchors)
                        match &o.attach {
                            Attach::Cursive { next, .. } if *next != k => {
                                self.notes.ambiguous.insert("cursive:glyph-linked-twice");
                            }
                            Attach::Cursive { .. } => {}
                            _ => {
                                if self.cursive_target[k] {
                                    self.notes.ambiguous.insert("cursive:glyph-linked-twice");
                                }
                            }
                        }
                        o.attach = Attach::Cursive { next: k, rtl: l.flags.rtl, exit, entry };
                        let t = &self.out[k];
                        if t.dx != 0 || t.dy != 0 {
                            self.notes.ambiguous.insert("cursive+placement");
                        }
                        if let Attach::Mark { .. } = t.attach {
                            self.notes.ambiguous.insert("cursive+mark-attach");
                        }
                        self.cursive_target[k] = true;
                        return true;
                    }
                }
            }
        }
        false
    }

    /// MarkBasePos / MarkLigPos: the current glyph (covered by the mark coverage, not skipped
    /// by the lookup flags) attaches to the nearest preceding glyph that is not a mark.
    fn mark_base_or_lig(&mut self, l: &Lookup) {
        let n = self.glyphs.len();
        for j in 0..n {
            if !self.on(dev::MARK_FLAGS) {
                if let Some(r) = self.skip_reason(&l.flags, self.gid(j)) {
                    self.note(r);
                    continue;
                }
            }
            self.mark_attach_at(l, j);
        }
    }

    /// MarkBasePos / MarkLigPos for the mark at j: base = nearest preceding non-mark glyph.
    /// Returns whether the mark was attached.
    fn mark_attach_at(&mut self, l: &Lookup, j: usize) -> bool {
        {
            let g = self.gid(j);
            // nearest preceding non-mark glyph
            let mut base = None;
            let mut i = j;
            while i > 0 {
                i -= 1;
                if self.class(self.gid(i)) != 3 {
                    base = Some(i);
                    break;
                }
            }
            let base = match base {
                Some(b) => b,
                None => return false,
            };
            let bg = self.gid(base);
            for st in &l.subtables {
                match st {
                    Subtable::MarkBase { mark_cov, base_cov, marks, bases, .. } => {
                        if let (Some(mi), Some(bi)) = (mark_cov.index(g), base_cov.index(bg)) {
                            let (class, ma) = &marks[mi];
                            if let Some(ba) = &bases[bi][*class as usize] {
                                self.note("fired:4");
                                if *class > 0 {
                                    self.note("mark:class>0");
                                }
                                if j - base > 1 {
                                    self.note("mark:not-adjacent-to-base");
                                }
                                self.attach_mark(j, base, ba, ma);
                                return true;
                            }
                        }
                    }
                    Subtable::MarkLig { mark_cov, lig_cov, marks, ligs, .. } => {
                        if let (Some(mi), Some(li)) = (mark_cov.index(g), lig_cov.index(bg)) {
                            let (class, ma) = &marks[mi];
                            let comp = self.glyphs[j].comp as usize;
                            if comp >= ligs[li].len() {
                                // a component index beyond the ligature's component count cannot
                                // come out of a consistent GSUB; what to do is not specified
                                self.notes.ambiguous.insert("marklig:component-out-of-range");
                                continue;
                            }
                            if let Some(ba) = &ligs[li][comp][*class as usize] {
                                self.note("fired:5");
                                if comp > 0 {
                                    self.note("marklig:component>0");
                                }
                                if *class > 0 {
                                    self.note("mark:class>0");
                                }
                                if j - base > 1 {
                                    self.note("marklig:not-adjacent-to-ligature");
                                }
                                self.attach_mark(j, base, ba, ma);
                                return true;
                            }
                        }
                    }
                    _ => {}
                }
            }
        }
        false
    }

    fn mkmk_try(&mut self, l: &Lookup, i: usize, j: usize) -> bool {
        let (g2, g1) = (self.gid(i), self.gid(j));
        for st in &l.subtables {
            if let Subtable::MarkMark { mark1_cov, mark2_cov, marks, mark2s, .. } = st {
                if let (Some(mi), Some(bi)) = (mark1_cov.index(g1), mark2_cov.index(g2)) {
                    let (class, ma) = &marks[mi];
                    if let Some(ba) = &mark2s[bi][*class as usize] {
                        self.note("fired:6");
                        if *class > 0 {
                            self.note("mark:class>0");
                        }
                        self.attach_mark(j, i, ba, ma);
                        return true;
                    }
                }
            }
        }
        false
    }

    /// MarkMarkPos: the current mark (mark1) attaches to the immediately preceding glyph that
    /// is not skipped by the mark filtering part of the lookup flags, if that glyph is a mark.
    fn mark_mark(&mut self, l: &Lookup) {
        let n = self.glyphs.len();
        let filter_only = Flags { mark_attach_type: l.flags.mark_attach_type, mark_filter_set: l.flags.mark_filter_set, ..Flags::default() };
        for j in 0..n {
            if self.class(self.gid(j)) != 3 {
                // mark1 coverage only lists marks (by construction); nothing to do
                continue;
            }
            if self.on(dev::MKMK_ANY) {
                // every earlier mark of the contiguous mark run, nearest match wins
                let mut i = j;
                while i > 0 && self.class(self.gid(i - 1)) == 3 {
                    i -= 1;
                }
                if !self.on(dev::MARK_FLAGS) && self.skipped(&l.flags, j) {
                    continue;
                }
                for c in i..j {
                    if !self.on(dev::MARK_FLAGS) && self.skipped(&filter_only, c) {
                        continue;
                    }
                    let (a, b) = (&self.glyphs[c], &self.glyphs[j]);
                    if a.comp == b.comp || a.lig || b.lig {
                        self.mkmk_try(l, c, j);
                    }
                }
                continue;
            }
            if !self.on(dev::MARK_FLAGS) {
                if let Some(r) = self.skip_reason(&l.flags, self.gid(j)) {
                    self.note(r);
                    continue;
                }
            }
            let i = if self.on(dev::MARK_FLAGS) {
                if j == 0 {
                    continue;
                }
                j - 1
            } else {
                match self.prev(&filter_only, j) {
                    Some(i) => i,
                    None => continue,
                }
            };
            if self.class(self.gid(i)) != 3 {
                continue;
            }
            let (a, b) = (&self.glyphs[i], &self.glyphs[j]);
            if a.comp != b.comp && !a.lig && !b.lig {
                // marks belonging to different ligature components: common practice refuses
                // the attachment, the specification does not say
                self.notes.ambiguous.insert("mkmk:different-ligature-components");
                continue;
            }
            self.mkmk_try(l, i, j);
        }
    }

    /// MarkMarkPos applied once to the mark at j through a sequence-lookup record: mark2 is the
    /// immediately preceding glyph not skipped by the mark-filtering part of the lookup flags,
    /// if it is a mark (as for a top-level lookup of this type).
    fn mark_mark_nested(&mut self, l: &Lookup, j: usize) -> bool {
        let filter_only = Flags { mark_attach_type: l.flags.mark_attach_type, mark_filter_set: l.flags.mark_filter_set, ..Flags::default() };
        let i = match self.prev(&filter_only, j) {
            Some(i) => i,
            None => return false,
        };
        if self.class(self.gid(i)) != 3 || self.class(self.gid(j)) != 3 {
            return false;
        }
        let (a, b) = (&self.glyphs[i], &self.glyphs[j]);
        if a.comp != b.comp && !a.lig && !b.lig {
            self.notes.ambiguous.insert("mkmk:different-ligature-components");
            return false;
        }
        if j - i > 1 {
            self.note("mkmk:not-adjacent-to-mark2");
        }
        self.mkmk_try(l, i, j)
    }

    // -----------------------------------------------------------------------------------------
    // contextual lookups

    /// Walk `count` unskipped glyphs forward from `from` checking each with `test(k, gid)`.
    fn match_forward(&mut self, f: &Flags, from: usize, count: usize, test: &dyn Fn(usize, Gid) -> bool) -> Option<Vec<usize>> {
        let mut at = from;
        let mut v = Vec::new();
        for k in 0..count {
            at = self.next(f, at)?;
            if !test(k, self.gid(at)) {
                return None;
            }
            v.push(at);
        }
        Some(v)
    }

    fn match_backward(&mut self, f: &Flags, from: usize, count: usize, test: &dyn Fn(usize, Gid) -> bool) -> bool {
        let mut at = from;
        for k in 0..count {
            at = match self.prev(f, at) {
                Some(p) => p,
                None => return false,
            };
            if !test(k, self.gid(at)) {
                return false;
            }
        }
        true
    }

    /// Try the subtables of contextual lookup `l` at position j. Returns the matched input
    /// positions and the sequence-lookup records of the first matching rule.
    fn context_match(&mut self, l: &Lookup, j: usize) -> Option<(Vec<usize>, Vec<SeqLookup>)> {
        let f = l.flags;
        let g = self.gid(j);
        for (si, st) in l.subtables.iter().enumerate() {
            let mut found: Option<(Vec<usize>, Vec<SeqLookup>)> = None;
            // (back test, input test, look test) per rule
            let mut try_rule = |me: &mut Self,
                                back_n: usize,
                                back: &dyn Fn(usize, Gid) -> bool,
                                input_n: usize,
                                input: &dyn Fn(usize, Gid) -> bool,
                                look_n: usize,
                                look: &dyn Fn(usize, Gid) -> bool|
             -> Option<Vec<usize>> {
                if !me.match_backward(&f, j, back_n, back) {
                    return None;
                }
                let rest = me.match_forward(&f, j, input_n, input)?;
                let last = rest.last().copied().unwrap_or(j);
                me.match_forward(&f, last, look_n, look)?;
                let mut p = vec![j];
                p.extend(rest);
                Some(p)
            };
            let none = |_: usize, _: Gid| true;
            match st {
                Subtable::Context1 { cov, rulesets } | Subtable::Chain1 { cov, rulesets } => {
                    if let Some(ci) = cov.index(g) {
                        if let Some(Some(rules)) = rulesets.get(ci) {
                            for (ri, r) in rules.iter().enumerate() {
                                let p = try_rule(
                                    self,
                                    r.back.len(),
                                    &|k, g| r.back[k] == g,
                                    r.input.len(),
                                    &|k, g| r.input[k] == g,
                                    r.look.len(),
                                    &|k, g| r.look[k] == g,
                                );
                                if let Some(p) = p {
                                    if ri > 0 {
                                        self.note("context:rule>0");
                                    }
                                    found = Some((p, r.records.clone()));
                                    break;
                                }
                            }
                        }
                    }
                }
                Subtable::Context2 { cov, cd, sets } => {
                    if cov.index(g).is_some() {
                        let c = cd.class(g) as usize;
                        if let Some(Some(rules)) = sets.get(c) {
                            for (ri, r) in rules.iter().enumerate() {
                                let p = try_rule(self, 0, &none, r.input.len(), &|k, g| r.input[k] == cd.class(g), 0, &none);
                                if let Some(p) = p {
                                    if ri > 0 {
                                        self.note("context:rule>0");
                                    }
                                    if c == 0 {
                                        self.note("context:class0-first");
                                    }
                                    found = Some((p, r.records.clone()));
                                    break;
                                }
                            }
                        }
                    }
                }
                Subtable::Chain2 { cov, bcd, icd, lcd, sets } => {
                    if cov.index(g).is_some() {
                        let c = icd.class(g) as usize;
                        if let Some(Some(rules)) = sets.get(c) {
                            for (ri, r) in rules.iter().enumerate() {
                                let p = try_rule(
                                    self,
                                    r.back.len(),
                                    &|k, g| r.back[k] == bcd.class(g),
                                    r.input.len(),
                                    &|k, g| r.input[k] == icd.class(g),
                                    r.look.len(),
                                    &|k, g| r.look[k] == lcd.class(g),
                                );
                                if let Some(p) = p {
                                    if ri > 0 {
                                        self.note("context:rule>0");
                                    }
                                    if c == 0 {
                                        self.note("context:class0-first");
                                    }
                                    found = Some((p, r.records.clone()));
                                    break;
                                }
                            }
                        }
                    }
                }
                Subtable::Context3 { covs, records } => {
                    if !covs.is_empty() && covs[0].index(g).is_some() {
                        let p = try_rule(self, 0, &none, covs.len() - 1, &|k, g| covs[k + 1].index(g).is_some(), 0, &none);
                        if let Some(p) = p {
                            found = Some((p, records.clone()));
                        }
                    }
                }
                Subtable::Chain3 { back, input, look, records } => {
                    if !input.is_empty() && input[0].index(g).is_some() {
                        let p = try_rule(
                            self,
                            back.len(),
                            &|k, g| back[k].index(g).is_some(),
                            input.len() - 1,
                            &|k, g| input[k + 1].index(g).is_some(),
                            look.len(),
                            &|k, g| look[k].index(g).is_some(),
                        );
                        if let Some(p) = p {
                            found = Some((p, records.clone()));
                        }
                    }
                }
                _ => {}
            }
            if let Some(f) = found {
                self.note(&format!("fired:{}", st.name()));
                if si > 0 {
                    self.note("subtable>0");
                }
                return Some(f);
            }
        }
        None
    }

    /// Apply lookup `nested` once at the glyph the sequence index designates.
    fn apply_nested(&mut self, start: usize, positions: &[usize], seq: usize, nested: usize) {
        let l = match self.lookup(nested) {
            Some(l) => l,
            None => return,
        };
        let nf = l.flags;
        let at = if self.on(dev::NESTED_FLAGS) {
            let mut at = start;
            let mut ok = true;
            for _ in 0..seq {
                match self.next(&nf, at) {
                    Some(k) => at = k,
                    None => {
                        ok = false;
                        break;
                    }
                }
            }
            if !ok {
                return;
            }
            at
        } else {
            match positions.get(seq) {
                Some(p) => *p,
                None => return,
            }
        };
        if seq > 0 {
            self.note("nested:seq>0");
        }
        match l.ltype {
            1 => {
                if self.single_at(l, at) {
                    self.note("nested:single");
                }
            }
            2 => {
                if let Some(k) = self.next(&nf, at) {
                    if self.pair_at(l, at, k).is_some() {
                        self.note("nested:pair");
                    }
                }
            }
            3 => {
                // The specification does not say which side of a cursive link "the glyph at the
                // recorded position" is. Reading A (default): it is the glyph whose exit anchor
                // is used, linked to the next glyph; reading B (READ_CURS_ENTRY): it is the glyph
                // whose entry anchor is used, linked to the previous glyph. The neighbour is the
                // nearest glyph the nested lookup's flags do not skip. The check accepts either.
                self.note("nested:cursive-attempt");
                let fired = if self.on(dev::READ_CURS_ENTRY) {
                    match self.prev(&nf, at) {
                        Some(i) => self.cursive_link(l, i, at),
                        None => false,
                    }
                } else {
                    match self.next(&nf, at) {
                        Some(k) => self.cursive_link(l, at, k),
                        None => false,
                    }
                };
                if fired {
                    self.note("nested:cursive");
                }
            }
            4 | 5 | 6 => {
                // the glyph at the recorded position is the mark; base / ligature / mark2 are
                // found as for a top-level lookup of the type. Not asserted (excluded, counted):
                // nested lookups whose flags ignore bases, ligatures or all marks, and targets
                // that the nested lookup's own mark filter would skip - the specification does
                // not say whether the flags of a nested attachment lookup apply to its target.
                let would = l.subtables.iter().any(|st| match st {
                    Subtable::MarkBase { mark_cov, .. } | Subtable::MarkLig { mark_cov, .. } => mark_cov.index(self.gid(at)).is_some(),
                    Subtable::MarkMark { mark1_cov, .. } => mark1_cov.index(self.gid(at)).is_some(),
                    _ => false,
                });
                if !would {
                    return;
                }
                if nf.ignore_base || nf.ignore_lig || nf.ignore_marks {
                    self.notes.ambiguous.insert("nested-attach:lookup-ignores-glyph-classes");
                    return;
                }
                if self.skip_reason(&nf, self.gid(at)).is_some() {
                    self.notes.ambiguous.insert("nested-attach:target-skipped-by-own-filter");
                    return;
                }
                let fired = if l.ltype == 6 { self.mark_mark_nested(l, at) } else { self.mark_attach_at(l, at) };
                if fired {
                    self.note(match l.ltype {
                        4 => "nested:mark-base",
                        5 => "nested:mark-lig",
                        _ => "nested:mark-mark",
                    });
                    if let Attach::Mark { base, .. } = &self.out[at].attach {
                        if at - *base > 1 {
                            self.note("nested:attach-not-adjacent");
                        }
                    }
                    if !nf.is_plain() {
                        self.note("nested:attach-with-mark-filter");
                    }
                }
            }
            _ => {}
        }
    }

    // -----------------------------------------------------------------------------------------
    // legacy kern

    fn kern_value(&mut self, l: Gid, r: Gid) -> i32 {
        let (model, kb) = match &self.kern {
            Some((m, kb)) => (*m, kb),
            None => return 0,
        };
        let bytes = kb.bytes;
        let layouts = kb.layouts;
        let mut acc: i32 = 0;
        for (si, s) in model.subs.iter().enumerate() {
            if s.coverage & KERN_HORIZONTAL == 0 {
                continue; // vertical data does not apply to a horizontal run
            }
            let hit: Option<i16> = match &s.data {
                KernData::F0(pairs) => pairs.iter().find(|p| p.0 == l && p.1 == r).map(|p| p.2),
                KernData::F2 { left_first, left, right_first, right, matrix, .. } => {
                    let li = l.checked_sub(*left_first).map(|d| d as usize).filter(|d| *d < left.len());
                    let ri = r.checked_sub(*right_first).map(|d| d as usize).filter(|d| *d < right.len());
                    if self.dev & dev::KERN2_ARRAY != 0 {
                        match (li, ri, &layouts[si]) {
                            (Some(li), Some(ri), Some(lay)) => {
                                let lv = lay.array_off + left[li] as usize * lay.row_width;
                                let rv = right[ri] as usize * 2;
                                let pos = lv + rv;
                                let window = lay.row_width * right.len();
                                let abs = lay.sub_at + lay.array_off + pos;
                                if pos + 2 <= window && abs + 2 <= bytes.len() {
                                    Some(i16::from_be_bytes([bytes[abs], bytes[abs + 1]]))
                                } else {
                                    None
                                }
                            }
                            _ => None,
                        }
                    } else {
                        // glyphs outside a class table are class 0 ("no kerning"; row 0 and
                        // column 0 hold zeros). Whether such a pair counts as *present* in an
                        // override / minimum subtable is not specified.
                        if (li.is_none() || ri.is_none()) && s.coverage & (KERN_OVERRIDE | KERN_MINIMUM) != 0 && s.coverage & KERN_CROSS_STREAM == 0 {
                            self.notes.ambiguous.insert("kern:format2-outside-class-table-in-override");
                        }
                        let lc = li.map(|i| left[i] as usize).unwrap_or(0);
                        let rc = ri.map(|i| right[i] as usize).unwrap_or(0);
                        Some(matrix[lc][rc])
                    }
                }
            };
            if let Some(v) = hit {
                if s.coverage & KERN_CROSS_STREAM != 0 {
                    if v != 0 {
                        // cross-stream values move glyphs perpendicular to the line; how that is
                        // reported is not part of the property
                        self.notes.ambiguous.insert("kern:cross-stream-hit");
                    }
                    continue;
                }
                if s.coverage & KERN_MINIMUM != 0 {
                    self.notes.ambiguous.insert("kern:minimum-hit");
                    continue;
                }
                match &s.data {
                    KernData::F0(_) => self.notes.classes.insert("fired:kern0".into()),
                    KernData::F2 { .. } => self.notes.classes.insert("fired:kern2".into()),
                };
                if s.coverage & KERN_OVERRIDE != 0 {
                    self.notes.classes.insert("kern:override".into());
                    acc = v as i32;
                } else {
                    acc += v as i32;
                }
                if acc < i16::MIN as i32 || acc > i16::MAX as i32 {
                    self.notes.overflow = true;
                }
            }
        }
        acc
    }

    pub fn apply_kern(&mut self) {
        let (model, kb) = match &self.kern {
            Some((m, kb)) => (*m, kb),
            None => return,
        };
        if self.on(dev::KERN2_ARRAY) {
            for (si, s) in model.subs.iter().enumerate() {
                if let (KernData::F2 { right, .. }, Some(lay)) = (&s.data, &kb.layouts[si]) {
                    if lay.sub_at + lay.array_off + lay.row_width * right.len() > kb.bytes.len() {
                        self.notes.kern_rejected = true;
                        return;
                    }
                }
            }
        }
        let n = self.glyphs.len();
        for i in 0..n.saturating_sub(1) {
            let v = self.kern_value(self.gid(i), self.gid(i + 1));
            if self.on(dev::KERN_ASSIGN) {
                if self.out[i].adv != 0 {
                    self.notes.classes.insert("kern:after-gpos-advance".into());
                }
                self.out[i].adv = v;
            } else {
                if self.out[i].adv != 0 {
                    self.notes.classes.insert("kern:after-gpos-advance".into());
                }
                self.out[i].adv += v;
            }
            if self.out[i].adv < i16::MIN as i32 || self.out[i].adv > i16::MAX as i32 {
                self.notes.overflow = true;
            }
        }
    }
}

// ---------------------------------------------------------------------------------------------
// feature / lookup selection

/// Feature indices of the LangSys selected for (script, lang): the script if present, else
/// `DFLT`; the language system if present, else the default one.
pub fn select_langsys<'a>(gpos: &'a GposModel, script: &[u8; 4], lang: Option<&[u8; 4]>) -> Option<&'a Vec<u16>> {
    let s = gpos.scripts.iter().find(|s| &s.tag == script).or_else(|| gpos.scripts.iter().find(|s| &s.tag == b"DFLT"))?;
    if let Some(lang) = lang {
        if let Some(l) = s.langsys.iter().find(|l| &l.0 == lang) {
            return Some(&l.1);
        }
    }
    s.default.as_ref()
}

/// Application steps for the features `tags` (already in the order the shaper enables them).
/// Returns (steps in feature-by-feature order, whether that order equals the global
/// lookup-index order the specification prescribes and no lookup occurs twice).
pub fn steps_for(gpos: Option<&GposModel>, has_kern_table: bool, script: &[u8; 4], lang: Option<&[u8; 4]>, tags: &[[u8; 4]]) -> (Vec<Step>, bool) {
    let mut steps = Vec::new();
    let mut lookups_seen: Vec<u16> = Vec::new();
    let langsys = gpos.and_then(|g| select_langsys(g, script, lang));
    for tag in tags {
        let feature = match (gpos, langsys) {
            (Some(g), Some(ls)) => ls.iter().filter_map(|fi| g.features.get(*fi as usize)).find(|f| &f.tag == tag),
            _ => None,
        };
        match feature {
            Some(f) => {
                let mut ls: Vec<u16> = f.lookups.clone();
                ls.sort_unstable();
                ls.dedup();
                for l in ls {
                    lookups_seen.push(l);
                    steps.push(Step::Lookup(l));
                }
            }
            None => {
                if tag == b"kern" && has_kern_table && gpos.is_some() && langsys.is_some() {
                    steps.push(Step::KernTable);
                }
            }
        }
    }
    let ordered = lookups_seen.windows(2).all(|w| w[0] < w[1]);
    (steps, ordered)
}

// ---------------------------------------------------------------------------------------------
// pen model

/// deviation POS_BASE_TWICE: the extra copy of the base's own placement
fn base_twice(out: &[GlyphOut], base: usize, devs: u32) -> (i32, i32) {
    if devs & dev::POS_BASE_TWICE != 0 {
        if let Attach::None = out[base].attach {
            return (out[base].dx, out[base].dy);
        }
    }
    (0, 0)
}

/// Is the kern table unreadable for a reader with deviation KERN2_ARRAY (it wants
/// rowWidth x nRightGlyphs bytes after the array start)?
pub fn kern2_rejected(model: &KernModel, kb: &KernBytes) -> bool {
    for (si, s) in model.subs.iter().enumerate() {
        if let (KernData::F2 { right, .. }, Some(lay)) = (&s.data, &kb.layouts[si]) {
            if lay.sub_at + lay.array_off + lay.row_width * right.len() > kb.bytes.len() {
                return true;
            }
        }
    }
    false
}

/// Absolute result for one glyph: its advance and the origin it is drawn at.
#[derive(Clone, Copy, Debug, PartialEq, Eq)]
pub struct Placed {
    pub advance: i32,
    pub x: i32,
    pub y: i32,
}

/// Left-to-right pen model ("the pen is incremented by the advance of each glyph as it is
/// processed; the glyph sits at pen + offset"): advance = font advance + adjustments, origin =
/// pen + placement for ordinary glyphs, base origin + base anchor - mark anchor (+ later
/// placements) for attached marks. Cursive attachments are not resolved here (None is
/// returned if one is present).
pub fn place_ltr(out: &[GlyphOut], font_advance: &[i32], devs: u32) -> Option<Vec<Placed>> {
    let mut res: Vec<Placed> = Vec::with_capacity(out.len());
    let mut pen = 0i32;
    for (i, o) in out.iter().enumerate() {
        let advance = font_advance[i] + o.adv;
        let (x, y) = match &o.attach {
            Attach::None => (pen + o.dx, o.dy),
            Attach::Mark { base, ba, ma, post } => {
                let b = res.get(*base)?;
                let (tx, ty) = base_twice(out, *base, devs);
                (b.x + ba.0 as i32 - ma.0 as i32 + post.0 + tx, b.y + ba.1 as i32 - ma.1 as i32 + post.1 + ty)
            }
            Attach::Cursive { .. } => return None,
        };
        res.push(Placed { advance, x, y });
        pen += advance;
    }
    Some(res)
}

/// Offsets relative to the glyph's own pen position that are direction independent: for an
/// ordinary glyph its placement; for a mark, base offset + base anchor - mark anchor (valid as
/// a pen-relative offset only when every glyph from the base (exclusive) to the mark
/// (inclusive) has zero advance — the caller checks that).
pub fn offsets_zero_advance_marks(out: &[GlyphOut], devs: u32) -> Option<Vec<(i32, i32)>> {
    let mut res: Vec<(i32, i32)> = Vec::with_capacity(out.len());
    for o in out {
        let v = match &o.attach {
            Attach::None => (o.dx, o.dy),
            Attach::Mark { base, ba, ma, post } => {
                let b = res.get(*base)?;
                let (tx, ty) = base_twice(out, *base, devs);
                (b.0 + ba.0 as i32 - ma.0 as i32 + post.0 + tx, b.1 + ba.1 as i32 - ma.1 as i32 + post.1 + ty)
            }
            Attach::Cursive { .. } => return None,
        };
        res.push(v);
    }
    Some(res)
}
