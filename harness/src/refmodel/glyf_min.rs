//! Minimal independent reader of `glyf`/`loca`/`hmtx` (written from the OpenType spec), used to
//! compare an original and a reconstructed glyph table *semantically*: contours, points,
//! on-curve flags, instructions, bounding boxes, composite components.

#[derive(Clone, Debug, PartialEq)]
pub struct PComponent {
    /// complete flags word
    pub flags: u16,
    pub glyph: u16,
    /// raw argument values (signed if ARGS_ARE_XY_VALUES, else unsigned)
    pub arg1: i32,
    pub arg2: i32,
    /// transformation values in file order (0, 1, 2 or 4 entries)
    pub xform: Vec<i16>,
}

#[derive(Clone, Debug, PartialEq)]
pub enum PGlyph {
    Empty,
    Simple {
        bbox: (i16, i16, i16, i16),
        /// absolute (x, y, on_curve) per contour
        contours: Vec<Vec<(i32, i32, bool)>>,
        instructions: Vec<u8>,
    },
    Composite {
        bbox: (i16, i16, i16, i16),
        components: Vec<PComponent>,
        /// Some iff a component carries WE_HAVE_INSTRUCTIONS
        instructions: Option<Vec<u8>>,
    },
}

struct Rd<'a> {
    d: &'a [u8],
    p: usize,
}

impl<'a> Rd<'a> {
    fn u8(&mut self) -> Result<u8, String> {
        let v = *self.d.get(self.p).ok_or_else(|| format!("eof at {}", self.p))?;
        self.p += 1;
        Ok(v)
    }
    fn u16(&mut self) -> Result<u16, String> {
        Ok(((self.u8()? as u16) << 8) | self.u8()? as u16)
    }
    fn i16(&mut self) -> Result<i16, String> {
        Ok(self.u16()? as i16)
    }
    fn bytes(&mut self, n: usize) -> Result<&'a [u8], String> {
        let s = self.d.get(self.p..self.p + n).ok_or_else(|| format!("eof reading {} bytes at {}", n, self.p))?;
        self.p += n;
        Ok(s)
    }
}

/// loca offsets in bytes (n + 1 entries). With `strict` the table must hold exactly n + 1
/// entries, otherwise at least that many (real fonts sometimes pad the table).
pub fn parse_loca(loca: &[u8], long: bool, num_glyphs: usize, strict: bool) -> Result<Vec<u32>, String> {
    let unit = if long { 4 } else { 2 };
    if loca.len() < (num_glyphs + 1) * unit || (strict && loca.len() != (num_glyphs + 1) * unit) {
        return Err(format!(
            "loca has {} bytes, expected {} ({} glyphs, {} format)",
            loca.len(),
            (num_glyphs + 1) * unit,
            num_glyphs,
            if long { "long" } else { "short" }
        ));
    }
    let mut v = Vec::with_capacity(num_glyphs + 1);
    for i in 0..=num_glyphs {
        let o = if long {
            u32::from_be_bytes(loca[i * 4..i * 4 + 4].try_into().unwrap())
        } else {
            2 * u16::from_be_bytes(loca[i * 2..i * 2 + 2].try_into().unwrap()) as u32
        };
        v.push(o);
    }
    Ok(v)
}

/// One glyph record (the slice given by loca; may carry trailing padding).
pub fn parse_glyph(data: &[u8]) -> Result<PGlyph, String> {
    if data.is_empty() {
        return Ok(PGlyph::Empty);
    }
    let mut r = Rd { d: data, p: 0 };
    let n = r.i16()?;
    let bbox = (r.i16()?, r.i16()?, r.i16()?, r.i16()?);
    if n == 0 {
        return Ok(PGlyph::Empty);
    }
    if n > 0 {
        let mut ends = Vec::new();
        for _ in 0..n {
            ends.push(r.u16()? as usize);
        }
        for w in ends.windows(2) {
            if w[1] < w[0] {
                return Err(format!("endPtsOfContours not monotonic: {:?}", ends));
            }
        }
        let il = r.u16()? as usize;
        let instructions = r.bytes(il)?.to_vec();
        let npts = ends.last().unwrap() + 1;
        let mut flags = Vec::with_capacity(npts);
        while flags.len() < npts {
            let f = r.u8()?;
            flags.push(f);
            if f & 0x08 != 0 {
                let rep = r.u8()? as usize;
                for _ in 0..rep {
                    flags.push(f);
                }
            }
        }
        if flags.len() != npts {
            return Err(format!("flag repeat overruns the point count ({} > {})", flags.len(), npts));
        }
        let mut xs = Vec::with_capacity(npts);
        let mut x = 0i32;
        for f in &flags {
            if f & 0x02 != 0 {
                let d = r.u8()? as i32;
                x += if f & 0x10 != 0 { d } else { -d };
            } else if f & 0x10 == 0 {
                x += r.i16()? as i32;
            }
            xs.push(x);
        }
        let mut pts = Vec::with_capacity(npts);
        let mut y = 0i32;
        for (i, f) in flags.iter().enumerate() {
            if f & 0x04 != 0 {
                let d = r.u8()? as i32;
                y += if f & 0x20 != 0 { d } else { -d };
            } else if f & 0x20 == 0 {
                y += r.i16()? as i32;
            }
            pts.push((xs[i], y, f & 1 != 0));
        }
        let mut contours = Vec::new();
        let mut start = 0usize;
        for e in ends {
            contours.push(pts[start..=e].to_vec());
            start = e + 1;
        }
        Ok(PGlyph::Simple { bbox, contours, instructions })
    } else {
        let mut components = Vec::new();
        let mut have_instr = false;
        loop {
            let flags = r.u16()?;
            let glyph = r.u16()?;
            let words = flags & 0x0001 != 0;
            let xy = flags & 0x0002 != 0;
            let (arg1, arg2) = match (words, xy) {
                (true, true) => (r.i16()? as i32, r.i16()? as i32),
                (true, false) => (r.u16()? as i32, r.u16()? as i32),
                (false, true) => (r.u8()? as i8 as i32, r.u8()? as i8 as i32),
                (false, false) => (r.u8()? as i32, r.u8()? as i32),
            };
            let nx = if flags & 0x0008 != 0 {
                1
            } else if flags & 0x0040 != 0 {
                2
            } else if flags & 0x0080 != 0 {
                4
            } else {
                0
            };
            let mut xform = Vec::new();
            for _ in 0..nx {
                xform.push(r.i16()?);
            }
            if flags & 0x0100 != 0 {
                have_instr = true;
            }
            components.push(PComponent { flags, glyph, arg1, arg2, xform });
            if flags & 0x0020 == 0 {
                break;
            }
        }
        let instructions = if have_instr {
            let il = r.u16()? as usize;
            Some(r.bytes(il)?.to_vec())
        } else {
            None
        };
        Ok(PGlyph::Composite { bbox, components, instructions })
    }
}

/// All glyphs of a glyf table. Checks that loca is monotonic and inside glyf.
pub fn parse_glyf(glyf: &[u8], loca: &[u8], long: bool, num_glyphs: usize, strict: bool) -> Result<Vec<PGlyph>, String> {
    let offs = parse_loca(loca, long, num_glyphs, strict)?;
    let mut out = Vec::with_capacity(num_glyphs);
    for i in 0..num_glyphs {
        let (a, b) = (offs[i] as usize, offs[i + 1] as usize);
        if b < a {
            return Err(format!("loca not monotonic at glyph {}: {} > {}", i, a, b));
        }
        if b > glyf.len() {
            return Err(format!("loca[{}] = {} beyond glyf length {}", i + 1, b, glyf.len()));
        }
        out.push(parse_glyph(&glyf[a..b]).map_err(|e| format!("glyph {}: {}", i, e))?);
    }
    Ok(out)
}

/// (advance, lsb) per glyph. The table must be exactly 4*nhm + 2*(n - nhm) bytes long.
pub fn parse_hmtx(hmtx: &[u8], num_glyphs: usize, nhm: usize) -> Result<Vec<(u16, i16)>, String> {
    if nhm == 0 || nhm > num_glyphs {
        return Err(format!("numberOfHMetrics {} with {} glyphs", nhm, num_glyphs));
    }
    let want = 4 * nhm + 2 * (num_glyphs - nhm);
    if hmtx.len() != want {
        return Err(format!("hmtx has {} bytes, expected {} (numGlyphs {}, numberOfHMetrics {})", hmtx.len(), want, num_glyphs, nhm));
    }
    let mut v = Vec::with_capacity(num_glyphs);
    let mut adv = 0u16;
    for i in 0..num_glyphs {
        if i < nhm {
            adv = u16::from_be_bytes([hmtx[4 * i], hmtx[4 * i + 1]]);
            v.push((adv, i16::from_be_bytes([hmtx[4 * i + 2], hmtx[4 * i + 3]])));
        } else {
            let at = 4 * nhm + 2 * (i - nhm);
            v.push((adv, i16::from_be_bytes([hmtx[at], hmtx[at + 1]])));
        }
    }
    Ok(v)
}
