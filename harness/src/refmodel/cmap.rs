//! Independent `cmap` reader (formats 0, 2, 4, 6, 10, 12), written from the OpenType
//! specification ("cmap — Character to Glyph Index Mapping Table"), the model of the subtable
//! preference order documented in allsorts' `font.rs`, the code derivations per encoding
//! (Unicode, Windows Symbol, Mac OS Roman, Big5) and an independent Mac OS Roman table
//! (Apple's ROMAN.TXT). Nothing here calls into allsorts.

use std::collections::BTreeMap;

// ---------------------------------------------------------------------------------------------
// byte access

fn u16_at(d: &[u8], at: usize) -> Option<u16> {
    let b = d.get(at..at.checked_add(2)?)?;
    Some(u16::from_be_bytes([b[0], b[1]]))
}

fn u32_at(d: &[u8], at: usize) -> Option<u32> {
    let b = d.get(at..at.checked_add(4)?)?;
    Some(u32::from_be_bytes([b[0], b[1], b[2], b[3]]))
}

// ---------------------------------------------------------------------------------------------
// table header

#[derive(Clone, Copy, Debug, PartialEq, Eq)]
pub struct Record {
    pub platform: u16,
    pub encoding: u16,
    pub offset: u32,
}

/// Encoding records of a cmap table in file order. None if the header is truncated or the
/// version is not 0.
pub fn records(cmap: &[u8]) -> Option<Vec<Record>> {
    if u16_at(cmap, 0)? != 0 {
        return None;
    }
    let n = u16_at(cmap, 2)? as usize;
    let mut v = Vec::with_capacity(n);
    for i in 0..n {
        let at = 4 + 8 * i;
        v.push(Record {
            platform: u16_at(cmap, at)?,
            encoding: u16_at(cmap, at + 2)?,
            offset: u32_at(cmap, at + 4)?,
        });
    }
    Some(v)
}

#[derive(Clone, Copy, Debug, PartialEq, Eq)]
pub enum Enc {
    Unicode,
    Symbol,
    MacRoman,
    Big5,
}

/// The preference order documented in `find_good_cmap_subtable`: (3,10), (3,1), (0,4), the first
/// platform 0 record, (3,0) symbol, (1,0) Mac Roman, (3,4) Big5. Returns the index of the chosen
/// record (the first one matching, in file order) and the encoding its codes are in.
pub fn select(recs: &[Record]) -> Option<(usize, Enc)> {
    let find = |p: u16, e: u16| recs.iter().position(|r| r.platform == p && r.encoding == e);
    if let Some(i) = find(3, 10) {
        return Some((i, Enc::Unicode));
    }
    if let Some(i) = find(3, 1) {
        return Some((i, Enc::Unicode));
    }
    if let Some(i) = find(0, 4) {
        return Some((i, Enc::Unicode));
    }
    if let Some(i) = recs.iter().position(|r| r.platform == 0) {
        return Some((i, Enc::Unicode));
    }
    if let Some(i) = find(3, 0) {
        return Some((i, Enc::Symbol));
    }
    if let Some(i) = find(1, 0) {
        return Some((i, Enc::MacRoman));
    }
    if let Some(i) = find(3, 4) {
        return Some((i, Enc::Big5));
    }
    None
}

// ---------------------------------------------------------------------------------------------
// subtables

/// A subtable located inside its cmap table. Lookups address the raw bytes the way the
/// specification describes (format 4 idRangeOffset and format 2 idRangeOffset are byte offsets
/// relative to the position of the field itself).
#[derive(Clone, Debug)]
pub struct Subtable<'a> {
    /// bytes from the start of the subtable to the end of the cmap table
    pub data: &'a [u8],
    pub format: u16,
}

pub fn subtable(cmap: &[u8], offset: u32) -> Option<Subtable<'_>> {
    let data = cmap.get(offset as usize..)?;
    let format = u16_at(data, 0)?;
    match format {
        0 | 2 | 4 | 6 | 10 | 12 => Some(Subtable { data, format }),
        _ => None,
    }
}

impl<'a> Subtable<'a> {
    /// Glyph for a character code; 0 when the code is not mapped. None when the subtable is
    /// malformed at the place the lookup needs (truncated arrays, offsets outside the table).
    pub fn lookup(&self, code: u32) -> Option<u16> {
        let d = self.data;
        match self.format {
            0 => {
                if code > 255 {
                    return Some(0);
                }
                d.get(6 + code as usize).map(|b| *b as u16)
            }
            2 => {
                if code > 0xFFFF {
                    return Some(0);
                }
                let hi = (code >> 8) as usize;
                let lo = (code & 0xFF) as usize;
                // subHeaderKeys[i] = subheader index * 8; key 0 means "i is a single byte code"
                let (k, low) = if hi == 0 {
                    let k = u16_at(d, 6 + 2 * lo)? as usize / 8;
                    if k != 0 {
                        // a lead byte on its own is not a character
                        return Some(0);
                    }
                    (0usize, lo)
                } else {
                    let k = u16_at(d, 6 + 2 * hi)? as usize / 8;
                    if k == 0 {
                        // high byte is a single byte code: the two-byte code is not a character
                        return Some(0);
                    }
                    (k, lo)
                };
                let sh = 6 + 512 + 8 * k;
                let first = u16_at(d, sh)? as usize;
                let count = u16_at(d, sh + 2)? as usize;
                let delta = u16_at(d, sh + 4)?;
                let ro = u16_at(d, sh + 6)? as usize;
                if low < first || low >= first + count {
                    return Some(0);
                }
                let v = u16_at(d, sh + 6 + ro + 2 * (low - first))?;
                Some(if v == 0 { 0 } else { v.wrapping_add(delta) })
            }
            4 => {
                if code > 0xFFFF {
                    return Some(0);
                }
                let c = code as u16;
                let seg_x2 = u16_at(d, 6)? as usize;
                let n = seg_x2 / 2;
                let ends = 14;
                let starts = ends + seg_x2 + 2;
                let deltas = starts + seg_x2;
                let ros = deltas + seg_x2;
                for i in 0..n {
                    let end = u16_at(d, ends + 2 * i)?;
                    if end >= c {
                        let start = u16_at(d, starts + 2 * i)?;
                        if start > c {
                            return Some(0);
                        }
                        let delta = u16_at(d, deltas + 2 * i)?;
                        let ro = u16_at(d, ros + 2 * i)? as usize;
                        if ro == 0 {
                            return Some(c.wrapping_add(delta));
                        }
                        let at = ros + 2 * i + ro + 2 * (c - start) as usize;
                        let v = u16_at(d, at)?;
                        return Some(if v == 0 { 0 } else { v.wrapping_add(delta) });
                    }
                }
                Some(0)
            }
            6 => {
                let first = u16_at(d, 6)? as u32;
                let count = u16_at(d, 8)? as u32;
                if code < first || code - first >= count {
                    return Some(0);
                }
                u16_at(d, 10 + 2 * (code - first) as usize)
            }
            10 => {
                let first = u32_at(d, 12)?;
                let count = u32_at(d, 16)?;
                if code < first || code - first >= count {
                    return Some(0);
                }
                u16_at(d, 20 + 2 * (code - first) as usize)
            }
            12 => {
                let n = u32_at(d, 12)? as usize;
                // binary search over groups sorted by startCharCode
                let (mut lo, mut hi) = (0usize, n);
                while lo < hi {
                    let mid = (lo + hi) / 2;
                    let at = 16 + 12 * mid;
                    let s = u32_at(d, at)?;
                    let e = u32_at(d, at + 4)?;
                    if code < s {
                        hi = mid;
                    } else if code > e {
                        lo = mid + 1;
                    } else {
                        let g = u32_at(d, at + 8)?.checked_add(code - s)?;
                        return Some(if g > 0xFFFF { 0 } else { g as u16 });
                    }
                }
                // groups that do not overlap describe one mapping in whatever order they are
                // stored; a small table is scanned as well, so that this reader also serves
                // tables whose groups are out of order (for a sorted table the scan finds nothing)
                if n <= 512 {
                    for i in 0..n {
                        let at = 16 + 12 * i;
                        let s = u32_at(d, at)?;
                        let e = u32_at(d, at + 4)?;
                        if s <= code && code <= e {
                            let g = u32_at(d, at + 8)?.checked_add(code - s)?;
                            return Some(if g > 0xFFFF { 0 } else { g as u16 });
                        }
                    }
                }
                Some(0)
            }
            _ => None,
        }
    }

    /// All (code, glyph) pairs with glyph != 0. None when malformed. `limit` bounds the number of
    /// codes visited (guards against absurd format 12 groups).
    pub fn mappings(&self, limit: usize) -> Option<BTreeMap<u32, u16>> {
        let d = self.data;
        let mut m = BTreeMap::new();
        let mut visited = 0usize;
        let put = |m: &mut BTreeMap<u32, u16>, c: u32, g: u16| {
            if g != 0 {
                m.insert(c, g);
            }
        };
        match self.format {
            0 => {
                for c in 0..256u32 {
                    put(&mut m, c, self.lookup(c)?);
                }
            }
            4 => {
                // walk the segments; a code belongs to the first segment whose endCode >= code
                let seg_x2 = u16_at(d, 6)? as usize;
                let n = seg_x2 / 2;
                let mut sorted = true;
                let mut prev_end: i64 = -1;
                for i in 0..n {
                    let end = u16_at(d, 14 + 2 * i)? as i64;
                    let start = u16_at(d, 14 + seg_x2 + 2 + 2 * i)? as i64;
                    if end < prev_end {
                        sorted = false;
                        break;
                    }
                    let lo = start.max(prev_end + 1);
                    let mut c = lo;
                    while c <= end {
                        put(&mut m, c as u32, self.lookup(c as u32)?);
                        c += 1;
                    }
                    prev_end = prev_end.max(end);
                }
                if !sorted {
                    m.clear();
                    for c in 0..=0xFFFFu32 {
                        put(&mut m, c, self.lookup(c)?);
                    }
                }
            }
            2 => {
                // 16-bit code space: simply ask for every code (the lookup is the definition)
                for c in 0..=0xFFFFu32 {
                    put(&mut m, c, self.lookup(c)?);
                }
            }
            6 => {
                let first = u16_at(d, 6)? as u32;
                let count = u16_at(d, 8)? as u32;
                for c in first..first + count {
                    put(&mut m, c, self.lookup(c)?);
                }
            }
            10 => {
                let first = u32_at(d, 12)?;
                let count = u32_at(d, 16)?;
                if count as usize > limit {
                    return None;
                }
                for i in 0..count {
                    let c = first.checked_add(i)?;
                    put(&mut m, c, self.lookup(c)?);
                }
            }
            12 => {
                let n = u32_at(d, 12)? as usize;
                for i in 0..n {
                    let at = 16 + 12 * i;
                    let s = u32_at(d, at)?;
                    let e = u32_at(d, at + 4)?;
                    let g = u32_at(d, at + 8)?;
                    if e < s {
                        return None;
                    }
                    visited = visited.checked_add((e - s) as usize + 1)?;
                    if visited > limit {
                        return None;
                    }
                    for c in s..=e {
                        let gid = g.checked_add(c - s)?;
                        if gid != 0 && gid <= 0xFFFF && !m.contains_key(&c) {
                            m.insert(c, gid as u16);
                        }
                    }
                }
            }
            _ => return None,
        }
        Some(m)
    }
}

// ---------------------------------------------------------------------------------------------
// Mac OS Roman (Apple, ROMAN.TXT c02 2005): codes 0x80..0xFF. 0x00..0x7F are ASCII.

pub const MAC_ROMAN_HIGH: [u32; 128] = [
    0x00C4, 0x00C5, 0x00C7, 0x00C9, 0x00D1, 0x00D6, 0x00DC, 0x00E1, // 80
    0x00E0, 0x00E2, 0x00E4, 0x00E3, 0x00E5, 0x00E7, 0x00E9, 0x00E8, // 88
    0x00EA, 0x00EB, 0x00ED, 0x00EC, 0x00EE, 0x00EF, 0x00F1, 0x00F3, // 90
    0x00F2, 0x00F4, 0x00F6, 0x00F5, 0x00FA, 0x00F9, 0x00FB, 0x00FC, // 98
    0x2020, 0x00B0, 0x00A2, 0x00A3, 0x00A7, 0x2022, 0x00B6, 0x00DF, // A0
    0x00AE, 0x00A9, 0x2122, 0x00B4, 0x00A8, 0x2260, 0x00C6, 0x00D8, // A8
    0x221E, 0x00B1, 0x2264, 0x2265, 0x00A5, 0x00B5, 0x2202, 0x2211, // B0
    0x220F, 0x03C0, 0x222B, 0x00AA, 0x00BA, 0x03A9, 0x00E6, 0x00F8, // B8
    0x00BF, 0x00A1, 0x00AC, 0x221A, 0x0192, 0x2248, 0x2206, 0x00AB, // C0
    0x00BB, 0x2026, 0x00A0, 0x00C0, 0x00C3, 0x00D5, 0x0152, 0x0153, // C8
    0x2013, 0x2014, 0x201C, 0x201D, 0x2018, 0x2019, 0x00F7, 0x25CA, // D0
    0x00FF, 0x0178, 0x2044, 0x20AC, 0x2039, 0x203A, 0xFB01, 0xFB02, // D8
    0x2021, 0x00B7, 0x201A, 0x201E, 0x2030, 0x00C2, 0x00CA, 0x00C1, // E0
    0x00CB, 0x00C8, 0x00CD, 0x00CE, 0x00CF, 0x00CC, 0x00D3, 0x00D4, // E8
    0xF8FF, 0x00D2, 0x00DA, 0x00DB, 0x00D9, 0x0131, 0x02C6, 0x02DC, // F0
    0x00AF, 0x02D8, 0x02D9, 0x02DA, 0x00B8, 0x02DD, 0x02DB, 0x02C7, // F8
];

/// Before Mac OS 8.5 code 0xDB was U+00A4 CURRENCY SIGN; both readings are in use.
pub const MAC_ROMAN_DB_OLD: u32 = 0x00A4;

/// Unicode scalar of a Mac OS Roman code (current Apple table).
pub fn mac_roman_decode(b: u8) -> u32 {
    if b < 0x80 {
        b as u32
    } else {
        MAC_ROMAN_HIGH[(b - 0x80) as usize]
    }
}

/// Mac OS Roman code of a Unicode scalar (current Apple table), None if not in the set.
pub fn mac_roman_encode(c: u32) -> Option<u8> {
    if c < 0x80 {
        return Some(c as u8);
    }
    MAC_ROMAN_HIGH.iter().position(|u| *u == c).map(|i| (i + 0x80) as u8)
}

/// The fifteen Mac OS Roman codes that allsorts' table leaves undefined by design (its set is
/// the PDF MacRomanEncoding subset): not-equal, infinity, less/greater-equal, partial diff,
/// summation, product, pi, integral, Omega, radical, approx-equal, Delta, lozenge, Apple logo.
pub fn mac_roman_pdf_excluded(b: u8) -> bool {
    matches!(b, 0xAD | 0xB0 | 0xB2 | 0xB3 | 0xB6 | 0xB7 | 0xB8 | 0xB9 | 0xBA | 0xBD | 0xC3 | 0xC5 | 0xC6 | 0xD7 | 0xF0)
}

/// Codes on which the expected character is not asserted at font level: the documented
/// exclusion list above and 0xDB (currency sign before Mac OS 8.5, euro sign since).
pub fn mac_roman_disputed_code(b: u8) -> bool {
    mac_roman_pdf_excluded(b) || b == 0xDB
}

/// Characters whose Mac Roman code is not asserted at font level: U+00A4 and U+20AC (0xDB).
pub fn mac_roman_disputed_char(c: u32) -> bool {
    c == MAC_ROMAN_DB_OLD || mac_roman_encode(c) == Some(0xDB)
}

// ---------------------------------------------------------------------------------------------
// code derivation

/// The legacy symbol rule documented in `font.rs`: characters in U+F000..U+F0FF are first moved
/// down to 0x00..0xFF, then 0x20 is mapped onto OS/2.usFirstCharIndex.
/// None when the formula would underflow (first_char < 0x20 and a small code).
pub fn symbol_code(ch: u32, first_char: u16) -> Option<u32> {
    let c0 = if (0xF000..=0xF0FF).contains(&ch) { ch - 0xF000 } else { ch };
    (c0 + first_char as u32).checked_sub(0x20)
}

/// Big5 code of a character per the WHATWG encoder (via encoding_rs, called directly).
pub fn big5_encode(c: char) -> Option<u16> {
    let mut buf = [0u8; 4];
    let s = c.encode_utf8(&mut buf);
    let (bytes, _, unmappable) = encoding_rs::BIG5.encode(s);
    if unmappable {
        return None;
    }
    match bytes.len() {
        1 => Some(bytes[0] as u16),
        2 => Some(u16::from_be_bytes([bytes[0], bytes[1]])),
        _ => None,
    }
}

/// Characters a Big5 code decodes to per the WHATWG decoder (one, or two for the four
/// combining-sequence codes); None for invalid codes. Single bytes below 0x80 are ASCII.
pub fn big5_decode(code: u16) -> Option<Vec<char>> {
    if code < 0x80 {
        return Some(vec![code as u8 as char]);
    }
    if code < 0x100 {
        return None;
    }
    let bytes = code.to_be_bytes();
    let (s, had_errors) = encoding_rs::BIG5.decode_without_bom_handling(&bytes);
    if had_errors {
        return None;
    }
    let v: Vec<char> = s.chars().collect();
    if v.is_empty() {
        None
    } else {
        Some(v)
    }
}

/// Character code under which `ch` is looked up in a subtable of encoding `enc`
/// (`first_char` = OS/2.usFirstCharIndex, 0x20 when there is no OS/2 table). None = the
/// character has no code in that encoding (maps to glyph 0).
pub fn char_code(enc: Enc, ch: char, first_char: u16) -> Option<u32> {
    match enc {
        Enc::Unicode => Some(ch as u32),
        Enc::Symbol => symbol_code(ch as u32, first_char),
        // allsorts' Mac Roman set leaves fifteen codes undefined by design: their characters
        // take the same route as every other character outside the set (the symbol rule)
        Enc::MacRoman => match mac_roman_encode(ch as u32) {
            Some(b) if !mac_roman_pdf_excluded(b) => Some(b as u32),
            _ => symbol_code(ch as u32, first_char),
        },
        Enc::Big5 => big5_encode(ch).map(u32::from),
    }
}
