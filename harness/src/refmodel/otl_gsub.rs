//! Reference GSUB interpreter, written from the OpenType specification (chapter 2 "OpenType
//! Layout Common Table Formats" and "GSUB — Glyph Substitution Table"). It operates on the
//! *program model* of `fontgen::otl` (never on bytes) and shares no code with allsorts.
//!
//! Semantics implemented
//! * script = requested tag, else `DFLT`; LangSys = requested language, else the default
//!   LangSys; a requested feature contributes the lookup list of the first feature of that tag
//!   in the LangSys, replaced by the alternate feature table of the first FeatureVariations
//!   record whose condition set holds for the normalised tuple;
//! * the union of all lookup indices is applied in ascending LookupList order, each lookup over
//!   the whole glyph run, left to right (type 8: right to left);
//! * at every position whose glyph is not skipped by the lookup flags, the subtables are tried
//!   in order and the first that matches (coverage + ligature/rule match) is applied;
//! * skipping: ignoreBaseGlyphs / ignoreLigatures / ignoreMarks by GDEF glyph class; marks
//!   (class 3) are in addition skipped when markAttachmentType ≠ 0 and their mark attachment
//!   class differs, or when useMarkFilteringSet is set and they are not in the set; non-marks
//!   are never affected by the mark filters; ignoreMarks supersedes the mark filters;
//! * context matching over non-skipped glyphs: input forwards, backtrack backwards from the
//!   first input glyph, lookahead forwards from the last input glyph; first matching rule;
//! * sequence lookup records are applied in order at the matched input position
//!   `sequenceIndex` (counted over matched, i.e. non-skipped, glyphs); the nested lookup uses
//!   its own flags for what it matches beyond that position;
//! * the cursor continues after the matched input (after the inserted glyphs for type 2);
//! * characters: a ligature carries the characters of all components in order, every output
//!   glyph of a multiple substitution carries a copy.
//!
//! Where the specification leaves a situation open the interpreter does not guess: it records
//! an *ambiguity* label in the outcome and the caller excludes (and counts) that evaluation.
//! See `Outcome::ambiguous`.

use crate::fontgen::otl::{ChainRule, ClassDefM, Cov, GdefModel, GsubModel, LookupFlags, SeqLookup, Subtable};
use std::collections::BTreeSet;

/// A glyph of the run.
#[derive(Clone, Debug, PartialEq)]
pub struct RGlyph {
    pub gid: u16,
    /// characters carried
    pub chars: Vec<u32>,
    /// produced by a ligature substitution with at least two components
    pub lig: bool,
    /// second or later output of a multiple substitution
    pub dup: bool,
}

impl RGlyph {
    pub fn new(gid: u16, ch: u32) -> RGlyph {
        RGlyph { gid, chars: vec![ch], lig: false, dup: false }
    }
}

#[derive(Clone, Debug, Default)]
pub struct Request<'a> {
    pub script: [u8; 4],
    pub lang: Option<[u8; 4]>,
    /// requested feature tags (distinct)
    pub features: &'a [[u8; 4]],
    /// alternate index used for every type 3 lookup (None = first alternate)
    pub alternate: Option<usize>,
    /// normalised coordinates, raw 2.14
    pub tuple: Option<&'a [i16]>,
}

/// What happened; used for the class histogram and for exclusions.
#[derive(Clone, Debug, Default)]
pub struct Outcome {
    pub glyphs: Vec<RGlyph>,
    /// lookup indices applied, ascending
    pub lookups: Vec<usize>,
    /// subtable kinds ("1.1" … "8") that performed a substitution / matched a rule
    pub fired: BTreeSet<&'static str>,
    /// flag kinds that skipped a glyph inside a successful match
    pub skipped: BTreeSet<&'static str>,
    pub class0_first: bool,
    pub extension_fired: bool,
    pub nested_fired: bool,
    pub nested_at_index_gt0: bool,
    pub nested_depth2: bool,
    pub second_subtable: bool,
    pub second_rule: bool,
    pub feature_variation_substituted: bool,
    pub fallback_dflt_script: bool,
    pub named_langsys: bool,
    pub no_langsys: bool,
    pub length_changed_in_context: bool,
    /// situations the specification leaves open; non-empty ⇒ do not compare
    pub ambiguous: BTreeSet<&'static str>,
}

/// The interpreter stops (ambiguity label `run-longer-than-256`) when the run grows beyond this.
pub const MAX_RUN: usize = 256;

/// Why a glyph is skipped by a lookup.
pub fn skip_reason(flags: &LookupFlags, gdef: Option<&GdefModel>, gid: u16) -> Option<&'static str> {
    let class = gdef.map(|g| g.glyph_class(gid)).unwrap_or(0);
    match class {
        1 if flags.ignore_base => Some("ignoreBase"),
        2 if flags.ignore_ligatures => Some("ignoreLigatures"),
        3 => {
            if flags.ignore_marks {
                return Some("ignoreMarks");
            }
            // OpenType, chapter 2, lookupFlag: "If a mark filtering set is specified, this supersedes any
            // mark attachment type indication in the lookup flag."
            if let Some(set) = flags.mark_filtering_set {
                let inset = gdef.map(|g| g.in_mark_set(set, gid)).unwrap_or(false);
                if !inset {
                    return Some("markFilteringSet");
                }
                return None;
            }
            if flags.mark_attach_type != 0 {
                let mac = gdef.map(|g| g.mark_attach_class(gid)).unwrap_or(0);
                if mac != flags.mark_attach_type as u16 {
                    return Some("markAttachmentType");
                }
            }
            None
        }
        _ => None,
    }
}

/// The lookup list selected by a request: ascending, unique. Second value: Outcome-like notes.
pub fn select_lookups(m: &GsubModel, req: &Request<'_>, out: &mut Outcome) -> Vec<usize> {
    let script = match m.scripts.iter().find(|s| s.tag == req.script) {
        Some(s) => Some(s),
        None => {
            let d = m.scripts.iter().find(|s| &s.tag == b"DFLT");
            out.fallback_dflt_script = d.is_some();
            d
        }
    };
    let script = match script {
        Some(s) => s,
        None => return Vec::new(),
    };
    let named = req.lang.and_then(|l| script.langsys.iter().find(|(t, _)| *t == l)).map(|(_, l)| l);
    out.named_langsys = named.is_some();
    let langsys = match named.or(script.default_langsys.as_ref()) {
        Some(l) => l,
        None => {
            out.no_langsys = true;
            return Vec::new();
        }
    };
    // feature variations: first record whose condition set matches
    let mut substitutions: Option<&Vec<(u16, Vec<u16>)>> = None;
    if let (Some(fv), Some(tuple)) = (m.feature_variations.as_ref(), req.tuple) {
        for r in &fv.records {
            let holds = r.conditions.iter().all(|c| match tuple.get(c.axis as usize) {
                Some(v) => c.min <= *v && *v <= c.max,
                None => false,
            });
            if holds {
                substitutions = r.substitutions.as_ref();
                break;
            }
        }
    }
    let mut set: BTreeSet<usize> = BTreeSet::new();
    for tag in req.features {
        let fi = langsys
            .feature_indices
            .iter()
            .copied()
            .find(|fi| m.features.get(*fi as usize).map(|f| &f.tag == tag).unwrap_or(false));
        if let Some(fi) = fi {
            let mut lookups: &Vec<u16> = &m.features[fi as usize].lookups;
            if let Some(subs) = substitutions {
                if let Some((_, alt)) = subs.iter().find(|(i, _)| *i == fi) {
                    if alt != lookups {
                        out.feature_variation_substituted = true;
                    }
                    lookups = alt;
                }
            }
            set.extend(lookups.iter().map(|l| *l as usize));
        }
    }
    set.into_iter().collect()
}

/// One edit of the glyph array, with indices valid at the time of the edit.
#[derive(Clone, Copy, Debug, PartialEq)]
enum Edit {
    Removed(usize),
    Inserted(usize),
}

struct Applied {
    edits: Vec<Edit>,
    /// index of the first glyph after the matched input, after the edits
    end: usize,
}

struct Interp<'a> {
    m: &'a GsubModel,
    gdef: Option<&'a GdefModel>,
    alternate: Option<usize>,
    out: Outcome,
    deviation: Deviation,
    /// second reading of an open point: a nested lookup is not applied when its own flags skip
    /// the glyph at the recorded position (first reading: it is applied regardless)
    nested_respects_own_flags: bool,
}

enum GlyphTest<'a> {
    Glyph(u16),
    Class(&'a ClassDefM, u16),
    Cov(&'a Cov),
}

impl GlyphTest<'_> {
    fn holds(&self, g: u16) -> bool {
        match self {
            GlyphTest::Glyph(x) => *x == g,
            GlyphTest::Class(cd, k) => cd.class_of(g) == *k,
            GlyphTest::Cov(c) => c.contains(g),
        }
    }
}

impl<'a> Interp<'a> {
    fn skip(&self, flags: &LookupFlags, g: &RGlyph) -> Option<&'static str> {
        let r = skip_reason(flags, self.gdef, g.gid);
        if r.is_none() && self.deviation == Deviation::FilteringSetSkipsNonMarks {
            if let Some(set) = flags.mark_filtering_set {
                if !flags.ignore_marks && flags.mark_attach_type == 0 {
                    let class = self.gdef.map(|d| d.glyph_class(g.gid)).unwrap_or(0);
                    let inset = self.gdef.map(|d| d.in_mark_set(set, g.gid)).unwrap_or(false);
                    if !(class == 3 && inset) {
                        return Some("deviation");
                    }
                }
            }
        }
        r
    }

    /// next non-skipped index after `from`, collecting skip reasons
    fn next(&self, flags: &LookupFlags, glyphs: &[RGlyph], from: usize, why: &mut Vec<&'static str>) -> Option<usize> {
        let mut j = from + 1;
        while j < glyphs.len() {
            match self.skip(flags, &glyphs[j]) {
                Some(r) => why.push(r),
                None => return Some(j),
            }
            j += 1;
        }
        None
    }

    fn prev(&self, flags: &LookupFlags, glyphs: &[RGlyph], from: usize, why: &mut Vec<&'static str>) -> Option<usize> {
        let mut j = from;
        while j > 0 {
            j -= 1;
            match self.skip(flags, &glyphs[j]) {
                Some(r) => why.push(r),
                None => return Some(j),
            }
        }
        None
    }

    /// match `tests` forwards starting after `from`; returns the matched positions
    fn match_forward(&self, flags: &LookupFlags, glyphs: &[RGlyph], from: usize, tests: &[GlyphTest<'_>], why: &mut Vec<&'static str>) -> Option<Vec<usize>> {
        let mut pos = Vec::with_capacity(tests.len());
        let mut at = from;
        for t in tests {
            let j = self.next(flags, glyphs, at, why)?;
            if !t.holds(glyphs[j].gid) {
                return None;
            }
            pos.push(j);
            at = j;
        }
        Some(pos)
    }

    fn match_backward(&self, flags: &LookupFlags, glyphs: &[RGlyph], from: usize, tests: &[GlyphTest<'_>], why: &mut Vec<&'static str>) -> bool {
        let mut at = from;
        for t in tests {
            match self.prev(flags, glyphs, at, why) {
                Some(j) if t.holds(glyphs[j].gid) => at = j,
                _ => return false,
            }
        }
        true
    }

    /// backtrack + input + lookahead; returns the input positions (including `i`)
    fn match_context(
        &self,
        flags: &LookupFlags,
        glyphs: &[RGlyph],
        i: usize,
        backtrack: &[GlyphTest<'_>],
        input: &[GlyphTest<'_>],
        lookahead: &[GlyphTest<'_>],
        why: &mut Vec<&'static str>,
    ) -> Option<Vec<usize>> {
        let mut w = Vec::new();
        let rest = self.match_forward(flags, glyphs, i, input, &mut w)?;
        if !self.match_backward(flags, glyphs, i, backtrack, &mut w) {
            return None;
        }
        let last = rest.last().copied().unwrap_or(i);
        self.match_forward(flags, glyphs, last, lookahead, &mut w)?;
        why.extend(w);
        let mut pos = vec![i];
        pos.extend(rest);
        Some(pos)
    }

    /// Apply the sequence lookup records of a matched rule.
    fn apply_records(&mut self, parent_flags: &LookupFlags, glyphs: &mut Vec<RGlyph>, positions: Vec<usize>, records: &[SeqLookup], depth: usize) -> Applied {
        let i = positions[0];
        let mut pos: Vec<Option<usize>> = positions.iter().map(|p| Some(*p)).collect();
        let mut end = positions[positions.len() - 1] + 1;
        let mut all: Vec<Edit> = Vec::new();
        for (seq, li) in records {
            if glyphs.len() > MAX_RUN {
                self.out.ambiguous.insert("run-longer-than-256");
                break;
            }
            let seq = *seq as usize;
            let p = match pos.get(seq) {
                Some(Some(p)) => *p,
                Some(None) => {
                    self.out.ambiguous.insert("sequence-index-glyph-consumed");
                    continue;
                }
                None => {
                    self.out.ambiguous.insert("sequence-index-out-of-range");
                    continue;
                }
            };
            // The specification counts sequenceIndex over the matched input sequence; after an
            // earlier record changed the run it does not say how positions are re-mapped. Only
            // proceed silently when re-counting over the current run gives the same position.
            let mut w = Vec::new();
            let mut recount = Some(i);
            for _ in 0..seq {
                recount = recount.and_then(|r| self.next(parent_flags, glyphs, r, &mut w));
            }
            if recount != Some(p) {
                self.out.ambiguous.insert("sequence-index-after-run-change");
            }
            if let Some(app) = self.apply_nested(*li as usize, glyphs, p, depth + 1) {
                self.out.nested_fired = true;
                if seq > 0 {
                    self.out.nested_at_index_gt0 = true;
                }
                if depth + 1 >= 2 {
                    self.out.nested_depth2 = true;
                }
                if !app.edits.is_empty() {
                    self.out.length_changed_in_context = true;
                }
                for e in &app.edits {
                    match *e {
                        Edit::Removed(r) => {
                            if r >= end {
                                self.out.ambiguous.insert("nested-lookup-consumed-glyphs-beyond-input");
                            } else {
                                end -= 1;
                            }
                            for q in pos.iter_mut() {
                                match *q {
                                    Some(x) if x == r => *q = None,
                                    Some(x) if x > r => *q = Some(x - 1),
                                    _ => {}
                                }
                            }
                        }
                        Edit::Inserted(at) => {
                            if at > end {
                                // a nested contextual lookup reached beyond this rule's input
                                self.out.ambiguous.insert("nested-lookup-inserted-glyphs-beyond-input");
                            }
                            end += 1;
                            for q in pos.iter_mut() {
                                if let Some(x) = *q {
                                    if x >= at {
                                        *q = Some(x + 1);
                                    }
                                }
                            }
                        }
                    }
                }
                all.extend(app.edits);
            }
        }
        Applied { edits: all, end }
    }

    /// Apply lookup `li` at position `p` on behalf of a sequence lookup record.
    fn apply_nested(&mut self, li: usize, glyphs: &mut Vec<RGlyph>, p: usize, depth: usize) -> Option<Applied> {
        let l = match self.m.lookups.get(li) {
            Some(l) => l,
            None => {
                self.out.ambiguous.insert("nested-lookup-index-out-of-range");
                return None;
            }
        };
        if l.lookup_type == 8 {
            // the specification does not say whether a reverse chaining lookup may be invoked
            // from a sequence lookup record
            self.out.ambiguous.insert("nested-reverse-chaining");
            return None;
        }
        if self.skip(&l.flags, &glyphs[p]).is_some() {
            // is the glyph at the recorded position subject to the nested lookup's own flags?
            self.out.ambiguous.insert("nested-position-skipped-by-nested-flags");
            if self.nested_respects_own_flags {
                return None;
            }
        }
        self.apply_at(li, glyphs, p, depth)
    }

    /// Try the subtables of lookup `li` at position `i` (glyph i is taken as not skipped).
    fn apply_at(&mut self, li: usize, glyphs: &mut Vec<RGlyph>, i: usize, depth: usize) -> Option<Applied> {
        let m = self.m;
        let l = &m.lookups[li];
        let flags = &l.flags;
        let g = glyphs[i].gid;
        for (si, st) in l.subtables.iter().enumerate() {
            let mut why: Vec<&'static str> = Vec::new();
            let mut second_rule = false;
            let applied: Option<Applied> = match st {
                Subtable::Single1 { cov, delta } => cov.index(g).map(|_| {
                    glyphs[i].gid = (g as i32 + *delta as i32).rem_euclid(65536) as u16;
                    Applied { edits: vec![], end: i + 1 }
                }),
                Subtable::Single2 { cov, subst } => cov.index(g).map(|ci| {
                    glyphs[i].gid = subst[ci];
                    Applied { edits: vec![], end: i + 1 }
                }),
                Subtable::Multiple { cov, seqs } => cov.index(g).map(|ci| {
                    let seq = &seqs[ci];
                    let mut edits = Vec::new();
                    if seq.is_empty() {
                        // forbidden by the specification
                        self.out.ambiguous.insert("empty-multiple-substitution");
                        return Applied { edits, end: i + 1 };
                    }
                    glyphs[i].gid = seq[0];
                    for (k, out) in seq.iter().enumerate().skip(1) {
                        let mut ng = glyphs[i].clone();
                        ng.gid = *out;
                        ng.dup = true;
                        ng.lig = false;
                        glyphs.insert(i + k, ng);
                        edits.push(Edit::Inserted(i + k));
                    }
                    Applied { edits, end: i + seq.len() }
                }),
                Subtable::Alternate { cov, sets } => cov.index(g).map(|ci| {
                    let set = &sets[ci];
                    let want = if depth == 0 {
                        self.alternate.unwrap_or(0)
                    } else {
                        if self.alternate.unwrap_or(0) != 0 {
                            // which alternate a nested type 3 lookup takes is the caller's policy
                            self.out.ambiguous.insert("nested-alternate-with-explicit-index");
                        }
                        0
                    };
                    match set.get(want) {
                        Some(a) => glyphs[i].gid = *a,
                        None => {
                            self.out.ambiguous.insert("alternate-index-out-of-range");
                        }
                    }
                    Applied { edits: vec![], end: i + 1 }
                }),
                Subtable::Ligature { cov, sets } => cov.index(g).and_then(|ci| {
                    let mut found = None;
                    for (k, lig) in sets[ci].iter().enumerate() {
                        let tests: Vec<GlyphTest<'_>> = lig.components.iter().map(|c| GlyphTest::Glyph(*c)).collect();
                        let mut w = Vec::new();
                        if let Some(pos) = self.match_forward(flags, glyphs, i, &tests, &mut w) {
                            why.extend(w);
                            second_rule = k > 0;
                            found = Some((lig, pos));
                            break;
                        }
                    }
                    found.map(|(lig, pos)| {
                        let end = pos.last().map(|p| p + 1).unwrap_or(i + 1) - pos.len();
                        let mut chars: Vec<u32> = Vec::new();
                        for p in &pos {
                            chars.extend(glyphs[*p].chars.iter().copied());
                        }
                        let mut edits = Vec::new();
                        for p in pos.iter().rev() {
                            glyphs.remove(*p);
                            edits.push(Edit::Removed(*p));
                        }
                        glyphs[i].chars.extend(chars);
                        glyphs[i].gid = lig.glyph;
                        if !pos.is_empty() {
                            glyphs[i].lig = true;
                        }
                        Applied { edits, end }
                    })
                }),
                Subtable::Context1 { cov, rulesets } => cov.index(g).and_then(|ci| {
                    let rules = rulesets[ci].as_ref()?;
                    let mut hit = None;
                    for (k, r) in rules.iter().enumerate() {
                        let input: Vec<GlyphTest<'_>> = r.input.iter().map(|x| GlyphTest::Glyph(*x)).collect();
                        if let Some(pos) = self.match_context(flags, glyphs, i, &[], &input, &[], &mut why) {
                            second_rule = k > 0;
                            hit = Some((pos, &r.records));
                            break;
                        }
                    }
                    hit.map(|(pos, recs)| self.apply_records(flags, glyphs, pos, recs, depth))
                }),
                Subtable::Context2 { cov, classdef, rulesets } => cov.index(g).and_then(|_| {
                    let k0 = classdef.class_of(g);
                    let rules = rulesets.get(k0 as usize)?.as_ref()?;
                    let mut hit = None;
                    for (k, r) in rules.iter().enumerate() {
                        let input: Vec<GlyphTest<'_>> = r.input.iter().map(|x| GlyphTest::Class(classdef, *x)).collect();
                        if let Some(pos) = self.match_context(flags, glyphs, i, &[], &input, &[], &mut why) {
                            second_rule = k > 0;
                            hit = Some((pos, &r.records));
                            break;
                        }
                    }
                    if hit.is_some() && k0 == 0 {
                        self.out.class0_first = true;
                    }
                    hit.map(|(pos, recs)| self.apply_records(flags, glyphs, pos, recs, depth))
                }),
                Subtable::Context3 { covs, records } => covs.first().filter(|c| c.contains(g)).and_then(|_| {
                    let input: Vec<GlyphTest<'_>> = covs[1..].iter().map(GlyphTest::Cov).collect();
                    self.match_context(flags, glyphs, i, &[], &input, &[], &mut why)
                        .map(|pos| self.apply_records(flags, glyphs, pos, records, depth))
                }),
                Subtable::Chain1 { cov, rulesets } => cov.index(g).and_then(|ci| {
                    let rules = rulesets[ci].as_ref()?;
                    let mut hit = None;
                    for (k, r) in rules.iter().enumerate() {
                        let t = |v: &'a Vec<u16>| -> Vec<GlyphTest<'a>> { v.iter().map(|x| GlyphTest::Glyph(*x)).collect() };
                        let r: &'a ChainRule = r;
                        if let Some(pos) = self.match_context(flags, glyphs, i, &t(&r.backtrack), &t(&r.input), &t(&r.lookahead), &mut why) {
                            second_rule = k > 0;
                            hit = Some((pos, &r.records));
                            break;
                        }
                    }
                    hit.map(|(pos, recs)| self.apply_records(flags, glyphs, pos, recs, depth))
                }),
                Subtable::Chain2 { cov, backtrack_classdef, input_classdef, lookahead_classdef, rulesets, .. } => cov.index(g).and_then(|_| {
                    let k0 = input_classdef.class_of(g);
                    let rules = rulesets.get(k0 as usize)?.as_ref()?;
                    let mut hit = None;
                    for (k, r) in rules.iter().enumerate() {
                        let b: Vec<GlyphTest<'_>> = r.backtrack.iter().map(|x| GlyphTest::Class(backtrack_classdef, *x)).collect();
                        let n: Vec<GlyphTest<'_>> = r.input.iter().map(|x| GlyphTest::Class(input_classdef, *x)).collect();
                        let a: Vec<GlyphTest<'_>> = r.lookahead.iter().map(|x| GlyphTest::Class(lookahead_classdef, *x)).collect();
                        if let Some(pos) = self.match_context(flags, glyphs, i, &b, &n, &a, &mut why) {
                            second_rule = k > 0;
                            hit = Some((pos, &r.records));
                            break;
                        }
                    }
                    if hit.is_some() && k0 == 0 {
                        self.out.class0_first = true;
                    }
                    hit.map(|(pos, recs)| self.apply_records(flags, glyphs, pos, recs, depth))
                }),
                Subtable::Chain3 { backtrack, input, lookahead, records } => input.first().filter(|c| c.contains(g)).and_then(|_| {
                    let b: Vec<GlyphTest<'_>> = backtrack.iter().map(GlyphTest::Cov).collect();
                    let n: Vec<GlyphTest<'_>> = input[1..].iter().map(GlyphTest::Cov).collect();
                    let a: Vec<GlyphTest<'_>> = lookahead.iter().map(GlyphTest::Cov).collect();
                    self.match_context(flags, glyphs, i, &b, &n, &a, &mut why)
                        .map(|pos| self.apply_records(flags, glyphs, pos, records, depth))
                }),
                Subtable::Reverse { cov, backtrack, lookahead, subst } => cov.index(g).and_then(|ci| {
                    let b: Vec<GlyphTest<'_>> = backtrack.iter().map(GlyphTest::Cov).collect();
                    let a: Vec<GlyphTest<'_>> = lookahead.iter().map(GlyphTest::Cov).collect();
                    self.match_context(flags, glyphs, i, &b, &[], &a, &mut why).map(|_| {
                        glyphs[i].gid = subst[ci];
                        Applied { edits: vec![], end: i + 1 }
                    })
                }),
            };
            if let Some(a) = applied {
                self.out.fired.insert(st.kind());
                self.out.skipped.extend(why);
                if si > 0 {
                    self.out.second_subtable = true;
                }
                if second_rule {
                    self.out.second_rule = true;
                }
                if l.extension.is_some() {
                    self.out.extension_fired = true;
                }
                return Some(a);
            }
        }
        None
    }

    fn run_lookup(&mut self, li: usize, glyphs: &mut Vec<RGlyph>) {
        let m = self.m;
        let l = &m.lookups[li];
        if l.lookup_type == 8 {
            let mut i = glyphs.len();
            while i > 0 {
                i -= 1;
                if self.skip(&l.flags, &glyphs[i]).is_none() {
                    self.apply_at(li, glyphs, i, 0);
                }
            }
            return;
        }
        let mut i = 0;
        while i < glyphs.len() {
            if glyphs.len() > MAX_RUN {
                self.out.ambiguous.insert("run-longer-than-256");
                return;
            }
            if self.skip(&l.flags, &glyphs[i]).is_some() {
                i += 1;
                continue;
            }
            match self.apply_at(li, glyphs, i, 0) {
                Some(a) => {
                    if a.end <= i {
                        self.out.ambiguous.insert("cursor-did-not-advance");
                        i += 1;
                    } else {
                        i = a.end;
                    }
                }
                None => i += 1,
            }
        }
    }
}

/// Apply the GSUB program to a glyph run.
pub fn apply(m: &GsubModel, gdef: Option<&GdefModel>, req: &Request<'_>, glyphs: Vec<RGlyph>) -> Outcome {
    apply_reading(m, gdef, req, glyphs, false)
}

/// `nested_respects_own_flags` selects the second reading of the one open point for which the
/// caller accepts either reading (label `nested-position-skipped-by-nested-flags`).
pub fn apply_reading(m: &GsubModel, gdef: Option<&GdefModel>, req: &Request<'_>, glyphs: Vec<RGlyph>, nested_respects_own_flags: bool) -> Outcome {
    let mut out = Outcome::default();
    let lookups = select_lookups(m, req, &mut out);
    let mut it = Interp { m, gdef, alternate: req.alternate, out, deviation: Deviation::None, nested_respects_own_flags };
    let mut glyphs = glyphs;
    for li in &lookups {
        if it.out.ambiguous.contains("run-longer-than-256") {
            break;
        }
        if *li < m.lookups.len() {
            it.run_lookup(*li, &mut glyphs);
        } else {
            it.out.ambiguous.insert("feature-lookup-index-out-of-range");
        }
    }
    let mut out = it.out;
    out.glyphs = glyphs;
    out.lookups = lookups;
    out
}

/// Known deviations from the specification that can be switched on to *attribute* a
/// discrepancy (defect model, DESIGN §3.6). `None` is the specification.
#[derive(Clone, Copy, Debug, PartialEq)]
pub enum Deviation {
    None,
    /// a lookup with useMarkFilteringSet (and neither ignoreMarks nor a mark attachment type)
    /// skips every glyph that is not a mark contained in the set — non-marks included
    FilteringSetSkipsNonMarks,
}

/// The interpreter with a deviation switched on.
pub fn apply_deviant(m: &GsubModel, gdef: Option<&GdefModel>, req: &Request<'_>, glyphs: Vec<RGlyph>, deviation: Deviation) -> Outcome {
    let mut out = Outcome::default();
    let lookups = select_lookups(m, req, &mut out);
    let mut it = Interp { m, gdef, alternate: req.alternate, out, deviation, nested_respects_own_flags: false };
    let mut glyphs = glyphs;
    for li in &lookups {
        if it.out.ambiguous.contains("run-longer-than-256") {
            break;
        }
        if *li < m.lookups.len() {
            it.run_lookup(*li, &mut glyphs);
        }
    }
    let mut out = it.out;
    out.glyphs = glyphs;
    out.lookups = lookups;
    out
}

/// Static bound on the number of glyphs one application of lookup `li` at one position can add
/// (used by callers to keep generated programs from growing runs explosively).
pub fn growth_bound(m: &GsubModel, li: usize, depth: usize) -> usize {
    if depth > 4 {
        return 0;
    }
    let l = match m.lookups.get(li) {
        Some(l) => l,
        None => return 0,
    };
    let recs = |r: &[SeqLookup]| -> usize { r.iter().map(|(_, t)| growth_bound(m, *t as usize, depth + 1)).sum() };
    let mut g = 0usize;
    for st in &l.subtables {
        let x = match st {
            Subtable::Multiple { seqs, .. } => seqs.iter().map(|s| s.len().saturating_sub(1)).max().unwrap_or(0),
            Subtable::Context1 { rulesets, .. } | Subtable::Context2 { rulesets, .. } => {
                rulesets.iter().flatten().flatten().map(|r| recs(&r.records)).max().unwrap_or(0)
            }
            Subtable::Chain1 { rulesets, .. } | Subtable::Chain2 { rulesets, .. } => rulesets.iter().flatten().flatten().map(|r| recs(&r.records)).max().unwrap_or(0),
            Subtable::Context3 { records, .. } | Subtable::Chain3 { records, .. } => recs(records),
            _ => 0,
        };
        g = g.max(x);
    }
    g
}

/// true if some rule of contextual lookup `li` has sequence lookup records
pub fn has_records(m: &GsubModel, li: usize) -> bool {
    m.lookups.get(li).map_or(false, |l| {
        l.subtables.iter().any(|st| match st {
            Subtable::Context1 { rulesets, .. } | Subtable::Context2 { rulesets, .. } => rulesets.iter().flatten().flatten().any(|r| !r.records.is_empty()),
            Subtable::Chain1 { rulesets, .. } | Subtable::Chain2 { rulesets, .. } => rulesets.iter().flatten().flatten().any(|r| !r.records.is_empty()),
            Subtable::Context3 { records, .. } | Subtable::Chain3 { records, .. } => !records.is_empty(),
            _ => false,
        })
    })
}
