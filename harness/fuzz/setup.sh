#!/bin/bash
# build all fuzz targets (offline)
HERE="$(cd "$(dirname "${BASH_SOURCE[0]}")" && pwd)"
cd "$(dirname "$HERE")" || exit 2
export CARGO_NET_OFFLINE=true
cargo +nightly fuzz build > target/fuzz-build.log 2>&1 || { echo "fuzz build failed"; tail -n 30 target/fuzz-build.log; exit 2; }
exit 0
