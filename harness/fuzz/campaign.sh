#!/bin/bash
# Coverage-guided tier: ./campaign.sh <ID> <stats.json>
# Runs the libFuzzer targets of one property for a wall-clock budget, then classifies every
# artefact by replaying it through `vcheck replay-bytes` (strict). Only that replay can
# produce a VIOLATION line. exit 0 = nothing new; 1 = violation; 2 = tool failure.
set -u
ID="$1"; STATS="$2"
HERE="$(cd "$(dirname "${BASH_SOURCE[0]}")" && pwd)"
HARNESS="$(dirname "$HERE")"
ROOT="${VERIF_ROOT:-$(dirname "$HARNESS")}"
BIN="$HARNESS/target/release/vcheck"
SEED="${VERIF_SEED:-0}"; [ "$SEED" = "0" ] && SEED=1000003   # libFuzzer: 0 means random
SECS="${VERIF_FUZZ_SECS:-420}"
case "$ID" in
  C14) TARGETS="c14_reader"; MAXLEN=512 ;;
  C01) TARGETS="c01_bytes c01_ops"; MAXLEN=65536 ;;
  C02) TARGETS="c02_shape"; MAXLEN=4096 ;;
  C05) TARGETS="c05_tape"; MAXLEN=3600 ;;
  C04) TARGETS="c04_gsub"; MAXLEN=4096 ;;
  C11) TARGETS="c11_woff2"; MAXLEN=4096 ;;
  C18) TARGETS="c18_type2"; MAXLEN=64 ;;
  C16) TARGETS="c16_glyf"; MAXLEN=2560 ;;
  C06) TARGETS="c06_cmap"; MAXLEN=1024 ;;
  C10) TARGETS="c10_container"; MAXLEN=640 ;;
  C12) TARGETS="c12_instance"; MAXLEN=2048 ;;
  C08) TARGETS="c08_subset_cmap"; MAXLEN=768 ;;
  C13) TARGETS="c13_norm"; MAXLEN=320 ;;
  C15) TARGETS="c15_roundtrip"; MAXLEN=1536 ;;
  C17) TARGETS="c17_text"; MAXLEN=256 ;;
  *) exit 0 ;;
esac
NT=$(echo $TARGETS | wc -w)
JOBS=$(( 16 / NT )); [ $JOBS -lt 1 ] && JOBS=1
export CARGO_NET_OFFLINE=true VERIF_ROOT="$ROOT"
cd "$HARNESS" || exit 2
RC=0
echo '{"targets":[' > "$STATS.tmp"
FIRST=1
PIDS=""
for T in $TARGETS; do
  [ -f "$HERE/fuzz_targets/$T.rs" ] || continue
  if ! cargo +nightly fuzz build "$T" > "$HARNESS/target/fuzz-build-$T.log" 2>&1; then
    echo "INCONCLUSIVE: cargo fuzz build $T failed (see $HARNESS/target/fuzz-build-$T.log)"; RC=2; continue
  fi
  WORK="$HARNESS/target/fuzz-work/$T"; rm -rf "$WORK"; mkdir -p "$WORK/corpus" "$WORK/artifacts"
  [ -d "$HERE/seeds/$T" ] && cp -r "$HERE/seeds/$T/." "$WORK/corpus/" 2>/dev/null
  [ -x "$HERE/seeds/$T.sh" ] && "$HERE/seeds/$T.sh" "$WORK/corpus"
  ( cd "$WORK" && cargo +nightly fuzz run "$T" "$WORK/corpus" -- -max_total_time="$SECS" -seed="$SEED" \
      -jobs="$JOBS" -workers="$JOBS" -max_len="$MAXLEN" -len_control=0 -timeout=25 -rss_limit_mb=4096 \
      -malloc_limit_mb=1024 -print_final_stats=1 -artifact_prefix="$WORK/artifacts/" > "$WORK/driver.log" 2>&1 ) &
  PIDS="$PIDS $!"
done
for P in $PIDS; do wait $P; done
for T in $TARGETS; do
  WORK="$HARNESS/target/fuzz-work/$T"; [ -d "$WORK" ] || continue
  EXECS=$(cat "$WORK"/fuzz-*.log 2>/dev/null | grep -a "stat::number_of_executed_units" | awk '{s+=$2} END {print s+0}')
  CORPUS=$(ls "$WORK/corpus" | wc -l)
  NART=0; NVIOL=0; NKNOWN=0; NNOREPRO=0
  for A in "$WORK"/artifacts/*; do
    [ -f "$A" ] || continue
    NART=$((NART+1))
    OUT=$(timeout 180 "$BIN" replay-bytes "$T" "$A" 2>&1); ARC=$?
    if [ $ARC -eq 124 ]; then
      mkdir -p "$ROOT/replays/$ID"; cp "$A" "$ROOT/replays/$ID/"; NVIOL=$((NVIOL+1)); RC=1
      echo "VIOLATION property=$ID replay=$ROOT/replays/$ID/$(basename "$A")"; echo "  fuzz artefact of $T does not terminate within 180 s"
    elif [ $ARC -eq 1 ] || [ $ARC -ge 128 ]; then
      mkdir -p "$ROOT/replays/$ID"; cp "$A" "$ROOT/replays/$ID/"; NVIOL=$((NVIOL+1)); RC=1
      if [ $ARC -eq 1 ]; then echo "$OUT" | sed "s#replay=$A#replay=$ROOT/replays/$ID/$(basename "$A")#"
      else echo "VIOLATION property=$ID replay=$ROOT/replays/$ID/$(basename "$A")"; echo "  fuzz artefact of $T kills the process (status $ARC): $(echo "$OUT" | tail -n 3 | tr '\n' ' ')"; fi
    elif echo "$OUT" | grep -q "known finding"; then NKNOWN=$((NKNOWN+1))
    elif [ $ARC -eq 2 ]; then echo "$OUT"; [ $RC -eq 0 ] && RC=2
    else NNOREPRO=$((NNOREPRO+1)); fi
  done
  [ $FIRST -eq 1 ] || echo ',' >> "$STATS.tmp"; FIRST=0
  echo "{\"target\":\"$T\",\"executions\":$EXECS,\"corpus_files\":$CORPUS,\"jobs\":$JOBS,\"seconds\":$SECS,\"artifacts\":$NART,\"violations\":$NVIOL,\"known\":$NKNOWN,\"not_reproducible\":$NNOREPRO}" >> "$STATS.tmp"
  echo "fuzz $T: executions=$EXECS corpus=$CORPUS artifacts=$NART violations=$NVIOL known=$NKNOWN not_reproducible=$NNOREPRO"
done
echo ']}' >> "$STATS.tmp"; mv "$STATS.tmp" "$STATS"
exit $RC
