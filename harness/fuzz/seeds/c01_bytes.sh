#!/bin/bash
# seed corpus for the c01_bytes target: every fixture font <= 64 KiB under $VERIF_REPO/tests
# usage: c01_bytes.sh <corpus dir>
set -u
DEST="$1"
REPO="${VERIF_REPO:-/repo}"
mkdir -p "$DEST"
n=0
while IFS= read -r -d '' f; do
  h=$(echo -n "$f" | md5sum | cut -c1-10)
  cp "$f" "$DEST/seed-$h-$(basename "$f" | tr -c 'A-Za-z0-9._-' '_')"
  n=$((n+1))
done < <(find "$REPO/tests/fonts" "$REPO/tests/aots" "$REPO/tests/font_specimen" -type f \
          \( -iname '*.ttf' -o -iname '*.otf' -o -iname '*.ttc' -o -iname '*.woff' -o -iname '*.woff2' \) \
          -size -65537c -size +0c -print0 2>/dev/null | sort -z)
echo "c01_bytes: $n seed files copied to $DEST"
# generated per-format seeds (written by the harness itself when it has been built)
HERE="$(cd "$(dirname "${BASH_SOURCE[0]}")" && pwd)"
BIN="$(dirname "$(dirname "$HERE")")/target/release/vcheck"
if [ -x "$BIN" ]; then
  TMP="$(mktemp -d)"
  VERIF_ROOT="$TMP" VERIF_SCALE=0.00001 VERIF_JOBS=1 C01_LIST_SEEDS="$TMP/list" C01_DUMP_SEEDS="$TMP/gen" "$BIN" run C01 --tier quick --seed 0 > /dev/null 2>&1
  g=0
  for f in "$TMP"/gen/*.bin; do
    [ -f "$f" ] || continue
    cp "$f" "$DEST/seed-gen-$(basename "$f")"; g=$((g+1))
  done
  rm -rf "$TMP"
  echo "c01_bytes: $g generated seed files copied to $DEST"
fi
