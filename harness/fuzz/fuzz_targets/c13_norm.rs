#![no_main]
use libfuzzer_sys::fuzz_target;

fuzz_target!(init: { vcheck::engine::fuzz::init("C13"); }, |data: &[u8]| {
    if let Ok(case) = vcheck::props::c13::case_from_bytes(data) {
        vcheck::engine::fuzz::run_case(|rec| vcheck::props::c13::check_case(&case, rec));
    }
});
