#![no_main]
use libfuzzer_sys::fuzz_target;

// raw font bytes -> the C01 driver (fixed arguments); same oracle as `vcheck run C01`
fuzz_target!(init: { vcheck::engine::fuzz::init("C01"); }, |data: &[u8]| {
    vcheck::engine::fuzz::run_case(|rec| vcheck::props::c01::check_bytes(data, rec));
});
