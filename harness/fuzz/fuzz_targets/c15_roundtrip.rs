#![no_main]
use libfuzzer_sys::fuzz_target;

// byte 0 selects one of the 31 generated sections of C15, the rest is the tape that section's own
// proptest strategy draws from (pass-through generator); the oracle is the section's check
fuzz_target!(init: { vcheck::engine::fuzz::init("C15"); }, |data: &[u8]| {
    vcheck::engine::fuzz::run_case(|rec| vcheck::props::c15::fuzz_check(data, rec));
});
