#![no_main]
use libfuzzer_sys::fuzz_target;

fuzz_target!(init: { vcheck::engine::fuzz::init("C05"); }, |data: &[u8]| {
    let tape = vcheck::props::c05::tape_from_bytes(data);
    vcheck::engine::fuzz::run_case(|rec| vcheck::props::c05::check_case(&tape, rec));
});
