#![no_main]
use libfuzzer_sys::fuzz_target;

fuzz_target!(init: { vcheck::engine::fuzz::init("C12"); }, |data: &[u8]| {
    if let Ok(case) = vcheck::props::c12::case_from_bytes(data) {
        vcheck::engine::fuzz::run_case(|rec| vcheck::props::c12::check_case(&case, rec));
    }
});
