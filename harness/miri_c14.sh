#!/bin/bash
# Miri sample of C14 (thorough tier): ./miri_c14.sh <stats.json>
# The first $VERIF_MIRI_CASES (default 24000) cases of C14's section `ops` — same generator, same per-case
# seeds, same model-based oracle as the native run — are interpreted by Miri (cargo +nightly miri run) in a
# harness build WITHOUT the bounds-assertion hook: an unchecked read outside the buffer, which the native run
# can only see through the hook, is then undefined behaviour that Miri reports by itself.
# exit 0 = nothing found; 1 = VIOLATION line(s) printed; 2 = tool failure / inconclusive.
set -u
STATS="$1"
HERE="$(cd "$(dirname "${BASH_SOURCE[0]}")" && pwd)"
ROOT="${VERIF_ROOT:-$(dirname "$HERE")}"
N="${VERIF_MIRI_CASES:-24000}"; P="${VERIF_MIRI_PROCS:-16}"; SEED="${VERIF_SEED:-0}"
export CARGO_NET_OFFLINE=true MIRIFLAGS="-Zmiri-disable-isolation"
cd "$HERE" || exit 2
WORK="$HERE/target/miri-work"; rm -rf "$WORK"; mkdir -p "$WORK"
MIRI="cargo +nightly miri run --offline --no-default-features --features zlib --bin vcheck --"
# build once (and prove the tool runs) before fanning out
if ! $MIRI list > "$WORK/build.log" 2>&1; then
  echo "INCONCLUSIVE: Miri build of the harness failed (see $WORK/build.log)"; exit 2
fi
T0=$(date +%s)
PER=$(( (N + P - 1) / P )); PIDS=""
for k in $(seq 0 $((P-1))); do
  A=$((k*PER)); B=$((A+PER)); [ $B -gt $N ] && B=$N; [ $A -ge $B ] && continue
  ( timeout "${VERIF_MIRI_TIMEOUT:-3000}" $MIRI miri-c14 $A $B $SEED > "$WORK/part$k.out" 2> "$WORK/part$k.err"; echo $? > "$WORK/part$k.rc" ) &
  PIDS="$PIDS $!"
done
for p in $PIDS; do wait $p; done
RC=0; CASES=0; NT=0; VIOL=0; INC=0
for f in "$WORK"/part*.rc; do
  k=$(basename "$f" .rc); k=${k#part}; rc=$(cat "$f")
  if [ "$rc" = "0" ]; then
    L=$(grep "^MIRI-DONE" "$WORK/part$k.out" | tail -1)
    CASES=$((CASES + $(echo "$L" | sed 's/.*cases=\([0-9]*\).*/\1/'))); NT=$((NT + $(echo "$L" | sed 's/.*nontrivial=\([0-9]*\).*/\1/')))
    continue
  fi
  LAST=$(grep "^MIRI-CASE" "$WORK/part$k.out" | tail -1 | awk '{print $2}')
  DONE=$(grep -c "^MIRI-CASE" "$WORK/part$k.out"); CASES=$((CASES + DONE))
  if [ "$rc" = "124" ] || [ "$rc" = "2" ] || [ -z "$LAST" ]; then
    echo "INCONCLUSIVE: Miri part $k ended with status $rc after $DONE cases (see $WORK/part$k.err)"; INC=$((INC+1)); [ $RC -eq 0 ] && RC=2; continue
  fi
  if grep -q "^MIRI-FAIL" "$WORK/part$k.out"; then
    SIG=$(grep "^MIRI-FAIL" "$WORK/part$k.out" | head -1 | cut -c1-600)
  elif grep -q "Undefined Behavior" "$WORK/part$k.err"; then
    SIG="miri: $(grep -m1 "Undefined Behavior" "$WORK/part$k.err" | cut -c1-400)"
  else
    echo "INCONCLUSIVE: Miri part $k died with status $rc at case $LAST without a UB report (see $WORK/part$k.err)"; INC=$((INC+1)); [ $RC -eq 0 ] && RC=2; continue
  fi
  mkdir -p "$ROOT/replays/C14"
  R="$ROOT/replays/C14/miri-$SEED-$LAST.json"
  jq -n --argjson idx "$LAST" --argjson seed "$SEED" --arg sig "$SIG" --arg err "$(grep -A25 -m1 "Undefined Behavior" "$WORK/part$k.err" | cut -c1-300)" \
    '{property:"C14", miri:true, tier:"thorough", seed:$seed, section:"ops", section_ord:0, index:$idx, sig:$sig, miri_report:$err, how_to_replay:"/verif/check C14 --replay <this file> (re-runs this one case under Miri, hook off, and natively)"}' > "$R"
  echo "VIOLATION property=C14 replay=$R"; echo "  $SIG"; VIOL=$((VIOL+1)); RC=1
done
jq -n --argjson cases $CASES --argjson nt $NT --argjson viol $VIOL --argjson inc $INC --argjson secs $(( $(date +%s) - T0 )) --argjson procs $P \
  '{miri:"cargo +nightly miri run (-Zmiri-disable-isolation), harness built with --no-default-features --features zlib: allsorts WITHOUT verif-hooks", section:"ops (first cases of the same addressable sequence as the native run)", cases:$cases, nontrivial:$nt, violations:$viol, inconclusive_parts:$inc, processes:$procs, wall_seconds:$secs}' > "$STATS"
echo "miri C14: cases=$CASES nontrivial=$NT violations=$VIOL inconclusive_parts=$INC"
exit $RC
